'''C09 - the mempool tracker survives every daemon race with its index intact.

Decided: ATOMIC (no suspension point lies between a mutation of txs and the paired mutation of hashXs, in any coroutine
of MemPool), SYNCHEIGHT (a refresh raises DBSyncError before mutating anything when the index is not at the listing
height; the refresh loop catches exactly that and skips the hand-over), EVERYREFRESH (every iteration with a stable height
processes the listing - no short-cut), DEFER (a missing parent defers the transaction; missing raw transactions are
skipped; only prevouts outside the listing are looked up), NONE (values the DB layer documents as None-able are tested
before use: the two-phase UTXO lookup, the raw transaction, the looked-up pair), COLLISION (shared with C01: a lookup that
must miss cannot be answered with another output), PAIRS (C08's pairing rules).
Not decided: "never raises" in general (daemon data is not modelled); exactness after the next quiet refresh.
'''
import ast

from ..model import AnalysisError, norm, walk_own
from .. import q, pathrules as pr, dataflow as df
from ..suspend import Suspension
from . import c01, c08

EXPLANATION = ('static necessary conditions of C09 on server/mempool.py and DB.lookup_utxos: await-atomicity of the txs/hashXs pair, '
               'height check before any mutation and DBSyncError handling, no refresh short-cut, deferral / skip of racing '
               'transactions, None guards on all DB / daemon values that may be missing, collision rule of the lookup. '
               'Does NOT decide "never raises" for arbitrary daemon data.')
ASSUMPTIONS = ['await-CFG suspension summaries (sa/suspend.py)', 'Storage.get returns None for a missing key']


def run(ctx):
    ctx.rule('C09.ATOMIC', lambda: rule_atomic(ctx), 2)
    ctx.rule('C09.SYNCHEIGHT', lambda: rule_syncheight(ctx), 3)
    ctx.rule('C09.EVERYREFRESH', lambda: rule_everyrefresh(ctx), 1)
    ctx.rule('C09.DEFER', lambda: rule_defer(ctx), 3)
    ctx.rule('C09.NONE', lambda: rule_none(ctx), 5)
    ctx.rule('C09.COLLISION', lambda: c01.rule_collision(ctx, 'C09.COLLISION'), 2)
    # the two-phase prevout lookup is positional: a prevout that vanished in a daemon race must keep its slot (None, None)
    sch = ctx.rule('C09.SCHEMAS', lambda: c01.Schemas(ctx))
    if sch is not None:
        ctx.rule('C09.LOOKUP', lambda: c01.rule_layout_lookup(ctx, sch, 'C09.LOOKUP'), 8)
    ctx.rule('C09.PAIRS', lambda: c08.rule_add(ctx) + c08.rule_remove(ctx), 8)
    from .unbound import rule_unbound
    ctx.rule('C09.UNBOUND', lambda: rule_unbound(ctx, 'C09.UNBOUND', ('mp',)), 20)
    from . import c03 as _c03
    ctx.rule('C09.MEMO', lambda: _c03.rule_memo(ctx, 'C09.MEMO'), 12)
    from . import c07 as _c07
    ctx.rule('C09.CLAMP', lambda: _c07.rule_hsub_clamp(ctx, 'C09.CLAMP'), 1)
    ctx.rule('C09.LOOPONLY', lambda: rule_looponly(ctx), 2)
    ctx.rule('C09.HANDOVER', lambda: rule_refresh_handover(ctx), 3)
    ctx.rule('C09.ITER', lambda: rule_iter(ctx), 3)
    # every refresh ends in api.on_mempool(), i.e. in the Notifications join: an exception there is an exception of the refresh
    # ("the refresh never raises"), so the join's discipline is a necessary condition here too
    from . import c20 as _c20
    ctx.rule('C20', lambda: _c20._run(ctx))
    # "reaches the exact view of C08": the clauses of the view that do not depend on the refresh being quiet
    ctx.rule('C09.VIEW', lambda: c08.rule_liveflag(ctx) + c08.rule_sign(ctx) + c08.rule_fee(ctx), 4)
    ctx.rule('C09.VIEW2', lambda: c08.rule_positional(ctx) + c08.rule_merge(ctx), 4)
    ctx.rule('C09.FIXPOINT', lambda: c08.rule_fixpoint(ctx, 'C09.FIXPOINT'), 2)


def rule_atomic(ctx):
    sus = Suspension(ctx)
    rel = ctx.repo.path('mp')
    n = 0
    for f in ctx.repo.funcs.values():
        if f.unit.relpath != rel or f.cls != 'MemPool' or not f.is_async:
            continue
        cfg = ctx.cfg(f)
        muts = {'txs': [], 'hashXs': []}
        for s in f.own_nodes():
            for fld in ('txs', 'hashXs'):
                if isinstance(s, ast.Assign) and isinstance(s.targets[0], ast.Subscript) and ctx.res.canon(s.targets[0].value, f) == f'self.{fld}':
                    muts[fld].append(s)
                if isinstance(s, ast.Delete) and isinstance(s.targets[0], ast.Subscript) and ctx.res.canon(s.targets[0].value, f) == f'self.{fld}':
                    muts[fld].append(s)
                if isinstance(s, ast.Call) and isinstance(s.func, ast.Attribute) and s.func.attr in ('pop', 'remove', 'add', 'discard', 'clear', 'update', 'popitem'):
                    base = s.func.value
                    if isinstance(base, ast.Subscript):
                        base = base.value
                    if ctx.res.canon(base, f) == f'self.{fld}':
                        muts[fld].append(q.stmt(s))
        if not muts['txs']:
            continue
        n += 1
        bad = []
        for a in muts['txs']:
            an = cfg.node(a)
            # suspension points reachable from the txs mutation before any hashXs mutation
            stop = {cfg.node(b) for b in muts['hashXs']}
            # a loop over the transaction's hashXs that contains the paired update completes the pairing when it is
            # passed (also with zero iterations); the loop holding the txs mutation itself does not count
            for b in muts['hashXs']:
                for p_, _fld in q.enclosing_chain(b, f.node):
                    if isinstance(p_, (ast.For, ast.AsyncFor)) and not q.in_body(a, p_.body):
                        stop.add(cfg.node(p_))
            if not stop:
                bad.append(f'{ctx.loc(f, a)}: no paired hashXs update in {f.qual}')
                continue
            seen, stack = set(), [an]
            while stack:
                x = stack.pop()
                for m in cfg.g.successors(x):
                    if m in seen or m in stop:
                        continue
                    seen.add(m)
                    stack.append(m)
                    ax = cfg.ast(m)
                    if ax is not None and cfg.kind(m) not in ('with_exit',):
                        r = sus.stmt_suspends(ax, f)
                        if r:
                            bad.append(f'{cfg.label(m)}: {r}')
        ctx.check(not bad, 'C09.ATOMIC', ctx.key(f, None, 'txs / hashXs updated without suspension'),
                  'no suspension point separates a change of txs from the paired change of hashXs',
                  'a suspension point lies between a change of txs and the paired change of hashXs (queries then see an index that is not the '
                  'inverse of the transaction set): ' + '; '.join(bad[:3]), loc=ctx.loc(f, f.node))
    # the synchronous acceptor cannot be interleaved at all
    acc = ctx.func('mp', 'MemPool._accept_transactions')
    ctx.check(not acc.is_async, 'C09.ATOMIC', ctx.key(acc, None, 'synchronous'), 'transactions are accepted in a synchronous function',
              '_accept_transactions became a coroutine: its paired updates can be interleaved', loc=ctx.loc(acc, acc.node))
    return n + 1


SHARED = ('self.txs', 'self.hashXs')
_MUT_METHODS = ('pop', 'remove', 'add', 'discard', 'clear', 'update', 'popitem', 'setdefault', 'difference_update', 'intersection_update')


def mutates_shared(ctx, f):
    '''Statements of f that change the transaction map, the index, or one of the index's sets.'''
    out = []
    for s in f.own_nodes():
        if isinstance(s, (ast.Assign, ast.AugAssign, ast.Delete)):
            tg = s.targets if isinstance(s, (ast.Assign, ast.Delete)) else [s.target]
            for t in tg:
                b = t
                while isinstance(b, ast.Subscript):
                    b = b.value
                    if ctx.res.canon(b, f) in SHARED:
                        out.append(s)
                        break
        if isinstance(s, ast.Call) and isinstance(s.func, ast.Attribute) and s.func.attr in _MUT_METHODS:
            b = s.func.value
            while isinstance(b, ast.Subscript):
                b = b.value
            if ctx.res.canon(b, f) in SHARED:
                out.append(q.stmt(s))
    return out


def rule_looponly(ctx):
    '''Everything that changes txs / hashXs runs on the event loop, inside the refresh task: a worker thread (or a second
    task) interleaves with sessions between the paired updates no matter where the awaits are.'''
    rel = ctx.repo.path('mp')
    n = 0
    for f in ctx.repo.funcs.values():
        if f.unit.relpath != rel or f.cls != 'MemPool' or f.name == '__init__':
            continue
        if not mutates_shared(ctx, f):
            continue
        n += 1
        off = [(c, k, nd) for (c, _callee, k, nd) in ctx.cg.callers(f) if k in ('THREAD', 'TASK', 'REF')]
        ctx.check(not off, 'C09.LOOPONLY', ctx.key(f, None, 'runs on the event loop only'),
                  f'{f.qual} changes txs/hashXs and is only ever called directly on the event loop',
                  f'{f.qual} changes txs/hashXs but is handed to ' + ', '.join(f'{k} at {ctx.loc(c, nd)} ({c.qual})' for c, k, nd in off[:3]) +
                  ': sessions run between its paired updates and see an index that is not the inverse of the transaction set',
                  loc=ctx.loc(f, f.node))
    return n


def rule_iter(ctx):
    '''No coroutine suspends while it is iterating over txs / hashXs (or a live view of them): the refresh task changes
    their size, and the iteration then raises RuntimeError.'''
    sus = Suspension(ctx)
    rel = ctx.repo.path('mp')
    n = 0

    def live_view(e, f):
        x = e
        # enumerate(...)/zip(...)/reversed(...) keep the underlying iterator live
        while isinstance(x, ast.Call) and isinstance(x.func, ast.Name) and x.func.id in ('enumerate', 'zip', 'reversed', 'iter') and x.args:
            x = x.args[0]
        if isinstance(x, ast.Call) and isinstance(x.func, ast.Attribute) and x.func.attr in ('values', 'items', 'keys') and not x.args:
            x = x.func.value
        if isinstance(x, ast.Subscript):
            x = x.value
        elif isinstance(x, ast.Call) and isinstance(x.func, ast.Attribute) and x.func.attr == 'get' and x.args:
            x = x.func.value          # d.get(k, ()) hands out the same inner container as d[k]
        return ctx.res.canon(x, f) in SHARED
    for f in ctx.repo.funcs.values():
        if f.unit.relpath != rel or f.cls != 'MemPool':
            continue
        for lp in f.own_nodes():
            if not isinstance(lp, (ast.For, ast.AsyncFor)) or not live_view(lp.iter, f):
                continue
            n += 1
            bad = []
            for st in walk_own(lp):
                if isinstance(st, ast.stmt) and st is not lp:
                    r = sus.stmt_suspends(st, f) if f.is_async else None
                    if r:
                        bad.append(f'{ctx.loc(f, st)} `{norm(st)[:50]}`: {r}')
            if isinstance(lp, ast.AsyncFor):
                bad.append('async for')
            ctx.check(not bad, 'C09.ITER', ctx.key(f, lp),
                      'the loop over the live container does not suspend',
                      f'the loop iterates a live view of the shared mempool container and suspends inside ({"; ".join(bad[:2])}): a refresh '
                      'that adds or removes a transaction meanwhile makes the iteration raise RuntimeError', loc=ctx.loc(f, lp))
    # positive floor: comprehensions/loops over the containers that exist today are counted too
    for f in ctx.repo.funcs.values():
        if f.unit.relpath != rel or f.cls != 'MemPool':
            continue
        for c in f.own_nodes():
            if isinstance(c, (ast.GeneratorExp, ast.ListComp, ast.SetComp, ast.DictComp)):
                for g in c.generators:
                    if live_view(g.iter, f):
                        n += 1
                        aw = [x for x in ast.walk(c) if isinstance(x, ast.Await)] or g.is_async
                        ctx.check(not aw, 'C09.ITER', ctx.key(f, q.stmt(c), norm(c)[:40]),
                                  'the comprehension over the live container does not suspend',
                                  'the comprehension over the live container awaits', loc=ctx.loc(f, c))
    return n


def rule_syncheight(ctx):
    f = ctx.func('mp', 'MemPool._process_mempool')
    cfg = ctx.cfg(f)
    n = 0
    guards = [s for s in f.node.body if isinstance(s, ast.If) and any(isinstance(x, ast.Raise) and 'DBSyncError' in norm(x.exc) for x in s.body)]
    ok = len(guards) == 1 and isinstance(guards[0].test, ast.Compare) and isinstance(guards[0].test.ops[0], ast.NotEq) and \
        {norm(guards[0].test.left), norm(guards[0].test.comparators[0])} == {f.params[3], 'self.api.db_height()'}
    muts = []
    for s in f.own_nodes():
        if isinstance(s, ast.Call) and isinstance(s.func, ast.Attribute) and s.func.attr in ('pop', 'remove', 'update', 'add'):
            base = s.func.value.value if isinstance(s.func.value, ast.Subscript) else s.func.value
            if ctx.res.canon(base, f) in ('self.txs', 'self.hashXs') or norm(base) == f.params[2]:
                muts.append(q.stmt(s))
    if ok:
        gn = cfg.node(guards[0])
        ok = all(cfg.dominates(gn, cfg.node(m)) for m in muts) and bool(muts)
    ctx.check(ok, 'C09.SYNCHEIGHT', ctx.key(f, None, 'height check first'),
              'a refresh raises DBSyncError unless the index is exactly at the listing height, before anything is changed',
              'the mempool is changed without first requiring index height == listing height (input values would be resolved against '
              'another block\'s UTXO set)', loc=ctx.loc(f, f.node))
    n += 1
    g = ctx.func('mp', 'MemPool._refresh_hashes')
    pm = [c for c in q.own_calls(g) if q.callee_name(ctx, g, c) == 'self._process_mempool']
    trs = [s for s in g.own_nodes() if isinstance(s, ast.Try) and pm and q.in_body(pm[0], s.body)]
    ok2 = len(trs) == 1
    if ok2:
        names = [norm(x) for h in trs[0].handlers for x in ((h.type.elts if isinstance(h.type, ast.Tuple) else [h.type]) if h.type else ['*'])]
        esc = [norm(x) for h in trs[0].handlers for x in walk_own(h) if isinstance(x, (ast.Return, ast.Raise, ast.Break))]
        ok2 = names == ['DBSyncError'] and not esc
    ctx.check(ok2, 'C09.SYNCHEIGHT', ctx.key(g, None, 'DBSyncError caught'),
              'the refresh loop catches exactly DBSyncError and carries on', 'the refresh loop does not catch exactly DBSyncError and continue',
              loc=ctx.loc(g, g.node))
    n += 1
    om = [c for c in q.own_calls(g) if q.callee_name(ctx, g, c) == 'self.api.on_mempool']
    ok3 = len(om) == 1 and trs and q.in_body(om[0], trs[0].orelse)
    ctx.check(bool(ok3), 'C09.SYNCHEIGHT', ctx.key(g, None, 'no hand-over after DBSyncError'),
              'on_mempool is told only about refreshes that completed', 'on_mempool can be called after a refresh that raised DBSyncError',
              loc=ctx.loc(g, g.node))
    return n + 1


def rule_everyrefresh(ctx):
    g = ctx.func('mp', 'MemPool._refresh_hashes')
    cfg = ctx.cfg(g)
    loops = [s for s in g.node.body if isinstance(s, ast.While)]
    pm = [c for c in q.own_calls(g) if q.callee_name(ctx, g, c) == 'self._process_mempool']
    if len(loops) != 1 or len(pm) != 1:
        raise AnalysisError(f'{g.key}: refresh loop / _process_mempool call not found')
    lp = loops[0]
    # the only way round the call is the `continue` taken when the daemon height moved during the listing
    conts = [s for s in lp.body if isinstance(s, ast.If) and isinstance(s.test, ast.Compare) and 'self.api.height()' in norm(s.test)
             and len(s.body) == 1 and isinstance(s.body[0], ast.Continue)]
    allowed = {cfg.node(c.body[0]) for c in conts}
    p = pr.path_avoiding(cfg, pr.body_entries(cfg, lp), [cfg.node(lp)], {cfg.node(q.stmt(pm[0]))} | allowed | pr.outside_loop(cfg, lp))
    hashes_ok = len(pm[0].args) == 3 and isinstance(pm[0].args[0], ast.Name)
    hd = df.last_def_before(g, pm[0].args[0].id, pm[0]) if hashes_ok else None
    hashes_ok = hd is not None and 'hex_hashes' in norm(hd[1])
    ctx.check(p is None and hashes_ok, 'C09.EVERYREFRESH', ctx.key(g, lp, 'no short-cut'),
              'every refresh with a stable daemon height processes the current listing',
              'a refresh can skip processing the listing (short-cut): transactions dropped or deferred earlier are never retried',
              witness=cfg.describe_path(p) if p else None, loc=ctx.loc(g, lp))
    return 1


def rule_defer(ctx):
    f = ctx.func('mp', 'MemPool._accept_transactions')
    n = 0
    # per path through one iteration of the transaction loop: the path on which the parent look-up raised KeyError records
    # the transaction as deferred, accepts nothing of it, and goes on with the next one (in the handler itself, or after a
    # helper reported the miss - the normaliser inlines such a helper)
    from .. import paths as P
    loops = [s for s in f.node.body if isinstance(s, ast.For) and norm(s.iter) == f'{f.params[1]}.items()']
    rr = [r for r in f.own_nodes() if isinstance(r, ast.Return) and isinstance(r.value, ast.Tuple) and isinstance(r.value.elts[0], ast.Name)]
    dfv = rr[0].value.elts[0].id if len(rr) == 1 else None
    ok = False
    if len(loops) == 1 and dfv:
        lp = loops[0]
        missed = 0
        ok = True
        parent = any('out_pairs' in norm(s) for s in walk_own(lp) if isinstance(s, ast.Subscript))
        for pth in P.paths(lp.body):
            hs = [nd for _t, _pol, nd in pth.conds if isinstance(nd, ast.ExceptHandler)]
            if not hs:
                continue
            names = [norm(x) for h in hs for x in ((h.type.elts if isinstance(h.type, ast.Tuple) else [h.type]) if h.type else ['*'])]
            if 'KeyError' not in names:
                continue
            missed += 1
            simple = [st_ for st_, _e in pth.events if isinstance(st_, (ast.Assign, ast.AugAssign, ast.Expr, ast.Delete))]
            defer = [s_ for s_ in simple if isinstance(s_, ast.Assign) and isinstance(s_.targets[0], ast.Subscript) and norm(s_.targets[0].value) == dfv]
            accepted = [s_ for s_ in simple if isinstance(s_, ast.Assign) and isinstance(s_.targets[0], ast.Subscript)
                        and ctx.res.canon(s_.targets[0].value, f) == 'self.txs']
            ok = ok and pth.exit == 'continue' and len(defer) == 1 and not accepted
        ok = ok and missed >= 1 and parent
    ctx.check(ok, 'C09.DEFER', ctx.key(f, None, 'missing parent defers'),
              'a transaction whose parent is not (yet) known is deferred, untouched, and the loop goes on',
              'a missing parent (KeyError) does not defer the transaction and continue', loc=ctx.loc(f, f.node))
    n += 1
    rets = [r for r in f.own_nodes() if isinstance(r, ast.Return)]
    ok2 = len(rets) == 1 and isinstance(rets[0].value, ast.Tuple) and isinstance(rets[0].value.elts[0], ast.Name) and \
        any(isinstance(s, ast.Assign) and norm(s.targets[0]) == rets[0].value.elts[0].id and norm(s.value) == '{}' for s in f.own_nodes())
    ctx.check(ok2, 'C09.DEFER', ctx.key(f, None, 'deferred returned'), 'deferred transactions are returned for another round',
              'deferred transactions are not returned', loc=ctx.loc(f, f.node))
    n += 1
    g = ctx.func('mp', 'MemPool._fetch_and_accept')
    lk = [c for c in q.own_calls(g) if q.callee_name(ctx, g, c) == 'self.api.lookup_utxos']
    ok3 = False
    if len(lk) == 1 and isinstance(lk[0].args[0], ast.Name) and isinstance(q.stmt(lk[0]), ast.Assign):
        pvn = lk[0].args[0].id
        st_ = q.stmt(lk[0])
        # the reply is either bound to a name first or consumed where it is awaited
        resn = norm(st_.targets[0]) if (st_.value is lk[0] or (isinstance(st_.value, ast.Await) and st_.value.value is lk[0])) \
            else 'await ' + norm(lk[0])
        pv = [s for s in g.own_nodes() if isinstance(s, ast.Assign) and norm(s.targets[0]) == pvn]
        if len(pv) == 1:
            gens = [x for x in ast.walk(pv[0].value) if isinstance(x, ast.GeneratorExp)]
            if len(gens) == 1:
                last = gens[0].generators[-1]
                ok3 = [norm(i) for i in last.ifs] == [f'{norm(last.target)}[0] not in {g.params[2]}']
        zp = [s for s in g.own_nodes() if isinstance(s, ast.Call) and norm(s) == f'zip({pvn}, {resn})']
        ok3 = ok3 and len(zp) == 1
    ctx.check(ok3, 'C09.DEFER', ctx.key(g, None, 'lookups aligned'),
              'only prevouts whose parent is not in the listing are looked up, and results are matched back position by position',
              'prevout lookups are not restricted to non-mempool parents / not matched back positionally', loc=ctx.loc(g, g.node))
    return n + 1


def guarded(ctx, f, use, var):
    '''Is `use` (a node using Name var) reached only when var is truthy?  Accepts `if var:` around it, or a dominating
    `if not var: return/continue/raise`.'''
    cfg = ctx.cfg(f)
    st = q.stmt(use)
    for t, b, _p in pr.control_conditions(st, f.node):
        if b and norm(t) == var:
            return True
        if (not b) and norm(t) == f'not {var}':
            return True
    un = cfg.node(st)
    for s in f.own_nodes():
        if isinstance(s, ast.If) and norm(s.test) in (f'not {var}', f'{var} is None') and s.body and \
                isinstance(s.body[-1], (ast.Return, ast.Continue, ast.Raise)) and not s.orelse:
            if cfg.dominates(cfg.node(s), un):
                return True
    return False


def rule_none(ctx):
    n = 0
    from .roles import lookup_parts
    lu, _lh, lo, _wh, _wo = lookup_parts(ctx)
    # 1. the value row may have vanished between the two phases
    gets = [s for s in lo.own_nodes() if isinstance(s, ast.Assign) and isinstance(s.value, ast.Call) and isinstance(s.value.func, ast.Attribute)
            and s.value.func.attr == 'get' and ctx.res.type_of(s.value.func.value, lo) == ('store', 'UTXO')]
    ok = len(gets) == 1
    if ok:
        var = norm(gets[0].targets[0])
        uses = [c for c in lo.own_nodes() if isinstance(c, ast.Call) and c is not gets[0].value and var in q.names_in(c)]
        ok = bool(uses) and all(guarded(ctx, lo, u, var) for u in uses)
    else:
        direct = [c for c in lo.own_nodes() if isinstance(c, ast.Call) and isinstance(c.func, ast.Name) and c.func.id.startswith('unpack_')
                  and any(isinstance(a, ast.Call) and isinstance(a.func, ast.Attribute) and a.func.attr == 'get' for a in c.args)]
        ok = False
    ctx.check(ok, 'C09.NONE', ctx.key(lo, None, 'value row may be gone'),
              'the u-row value is tested before it is decoded (the DB may have been flushed between the two lookup phases)',
              'the u-row value is decoded without testing that it was found: a flush between the two lookup phases makes the refresh raise',
              loc=ctx.loc(lo, lo.node))
    n += 1
    # 2. phase one may have found nothing
    hp = lo.params[0]
    lcfg = ctx.cfg(lo)
    guards = [s for s in lo.node.body if isinstance(s, ast.If) and norm(s.test) == f'not {hp}' and s.body and isinstance(s.body[-1], ast.Return)
              and (s.body[-1].value is None or norm(s.body[-1].value) == 'None')]
    users = [s for s in lo.own_nodes() if isinstance(s, ast.Assign) and hp in q.names_in(s.value)]
    ok = len(guards) == 1 and bool(users) and all(lcfg.dominates(lcfg.node(guards[0]), lcfg.node(u)) for u in users)
    ctx.check(ok, 'C09.NONE', ctx.key(lo, None, 'no hashX found'), 'a prevout for which phase one found no row is answered None',
              'a prevout without a phase-one hit is not answered None first', loc=ctx.loc(lo, lo.node))
    n += 1
    # 2b. every answer of phase one - a hit or a miss - comes from the table scan of THIS call: a miss remembered from an
    # earlier refresh (a negative cache, a "seen" set) answers for rows that may have been committed since; the prevout is
    # then reported unknown on every refresh and its spender never enters the view
    hcfg = ctx.cfg(_lh)
    scans = [s_ for s_ in _lh.own_nodes() if isinstance(s_, (ast.For, ast.Assign, ast.Expr)) and any(
        isinstance(c_, ast.Call) and isinstance(c_.func, ast.Attribute) and c_.func.attr in ('iterator', 'get')
        and ctx.res.type_of(c_.func.value, _lh) == ('store', 'UTXO') for c_ in ast.walk(s_.iter if isinstance(s_, ast.For) else s_))]
    rets_h = [r_ for r_ in _lh.own_nodes() if isinstance(r_, ast.Return)]
    okh = bool(scans) and bool(rets_h)
    early = []
    if okh:
        sn = {hcfg.node(s_) for s_ in scans}
        for r_ in rets_h:
            if pr.path_avoiding(hcfg, [hcfg.entry], [hcfg.node(r_)], sn) is not None:
                early.append(f'line {int(round(r_.lineno))}: `{norm(r_)}`')
    ctx.check(okh and not early, 'C09.NONE', ctx.key(_lh, None, 'answered from the table scan'),
              'every answer of the prevout look-up is reached through the scan of the h table',
              f'the prevout look-up can answer without consulting the table ({early}): a remembered miss outlives the commit that '
              'makes the row visible', loc=ctx.loc(_lh, _lh.node))
    n += 1
    # 3. raw transactions may be missing
    fao = ctx.func('mp', 'MemPool._fetch_and_accept')
    fas = [x for x in fao.nested.values() if any(isinstance(c, ast.Call) and q.callee_name(ctx, x, c).split('.')[-1] in ('read_tx', 'read_tx_and_size') or
                                                 (isinstance(c, ast.Call) and isinstance(c.func, ast.Name) and ctx.res.aliases(x).get(c.func.id) is not None
                                                  and norm(ctx.res.aliases(x)[c.func.id]) == 'read_tx') for c in x.own_nodes())]
    if len(fas) != 1:
        raise AnalysisError('MemPool._fetch_and_accept: nested deserialiser not found')
    fa = fas[0]
    loops = [s for s in fa.own_nodes() if isinstance(s, ast.For)]
    ok = False
    if loops:
        lp = loops[0]
        rv = norm(lp.target.elts[1]) if isinstance(lp.target, ast.Tuple) else None
        reads = [c for c in walk_own(lp) if isinstance(c, ast.Call) and rv and rv in [norm(a) for a in c.args] and norm(c.func) != 'zip']
        ok = bool(reads) and all(guarded(ctx, fa, r, rv) for r in reads) and isinstance(lp.iter, ast.Call) and norm(lp.iter.func) == 'zip' \
            and norm(lp.iter.args[0]) == fao.params[1]
    ctx.check(ok, 'C09.NONE', ctx.key(fa, None, 'raw tx may be missing'),
              'a transaction the daemon no longer returns is skipped before parsing',
              'a missing raw transaction (evicted or mined between listing and fetch) is parsed without a None test', loc=ctx.loc(fa, fa.node))
    n += 1
    # 4. a looked-up pair may be None: falls back to the mempool parent
    acc = ctx.func('mp', 'MemPool._accept_transactions')
    g = [s for s in acc.own_nodes() if isinstance(s, ast.Assign) and isinstance(s.value, ast.Call) and isinstance(s.value.func, ast.Attribute)
         and s.value.func.attr == 'get' and norm(s.value.func.value) == acc.params[2]]
    ok = len(g) == 1
    if ok:
        var = norm(g[0].targets[0])
        nxt = [s for s in acc.own_nodes() if isinstance(s, ast.If) and norm(s.test) == f'not {var}' and s.lineno > g[0].lineno]
        ok = len(nxt) == 1 and any(isinstance(x, ast.Assign) and norm(x.targets[0]) == var for x in nxt[0].body)
    ctx.check(ok, 'C09.NONE', ctx.key(acc, None, 'lookup miss falls back to the parent'),
              'a prevout the DB did not resolve is taken from the mempool parent (or defers the transaction)',
              'a None lookup result is used as an input pair', loc=ctx.loc(acc, acc.node))
    n += 1
    # 5. spend_utxo side of the same table (a row may lack its twin only through corruption): value tested
    sp = ctx.func('bp', 'BlockProcessor.spend_utxo')
    g = [s for s in sp.own_nodes() if isinstance(s, ast.Assign) and isinstance(s.value, ast.Call) and isinstance(s.value.func, ast.Attribute)
         and s.value.func.attr == 'get' and ctx.res.type_of(s.value.func.value, sp) == ('store', 'UTXO')]
    ok = len(g) == 1
    if ok:
        var = norm(g[0].targets[0])
        uses = [r for r in sp.own_nodes() if isinstance(r, ast.Return) and r.value is not None and var in q.names_in(r.value)]
        ok = bool(uses) and all(guarded(ctx, sp, u, var) for u in uses)
    ctx.check(ok, 'C09.NONE', ctx.key(sp, None, 'u row tested'), 'the u-row value is tested before it is concatenated into the spent value',
              'the u-row value is used without a None test', loc=ctx.loc(sp, sp.node))
    return n + 1


def bracketed_listing(ctx, g, hdef, listing, pm, reason=False):
    """On every path through one turn of the refresh loop that reaches _process_mempool: the height was read (hdef), then the
    listing requested, then the daemon height read again and found EQUAL to the first reading - whichever way the retry is
    spelt (`if h != new: continue`, an inner `while True: ...; if h == new: break`, ...)."""
    from .. import paths as P
    v = _bracketed_listing(ctx, g, hdef, listing, pm)
    return v if reason else v == 'ok'


def _bracketed_listing(ctx, g, hdef, listing, pm):
    from .. import paths as P
    loops = [s for s in g.node.body if isinstance(s, ast.While)]
    if len(loops) != 1:
        return 'loop'
    pst, lst = q.stmt(pm), q.stmt(listing)
    reading = norm(hdef.value)
    seen = 0
    for p_ in P.paths(loops[0].body):
        if not p_.passes(pst):
            continue
        seen += 1
        idx = {id(x): k for k, x in enumerate(p_.passed)}
        if id(hdef) not in idx or id(lst) not in idx or not idx[id(hdef)] < idx[id(lst)] < idx[id(pst)]:
            return 'order'
        good = False
        for t, pol, n_ in p_.conds:
            if not (isinstance(t, ast.Compare) and len(t.ops) == 1 and id(n_) in idx and idx[id(lst)] < idx[id(n_)] < idx[id(pst)]):
                continue
            if not ((isinstance(t.ops[0], ast.Eq) and pol) or (isinstance(t.ops[0], ast.NotEq) and not pol)):
                continue
            sides = {norm(t.left), norm(t.comparators[0])}
            if reading in sides and 'await self.api.height()' in sides:
                good = True
        if not good:
            return 'unchecked'
    return 'ok' if seen > 0 else 'unreached'


def rule_refresh_handover(ctx, rule='C09.HANDOVER'):
    '''MemPool._refresh_hashes reports to the notifications exactly what the property assumes of the mempool source:
    (i) the listing it processes is bracketed by two equal readings of the daemon height - the first one taken BEFORE the
    listing is requested - so the height it reports is the height the listing belongs to; (ii) every completed refresh is
    reported, unconditionally, with the touched set accumulated since the last report and that height.'''
    g = ctx.func('mp', 'MemPool._refresh_hashes')
    cfg = ctx.cfg(g)
    n = 0
    lists = [c for c in q.own_calls(g) if q.callee_name(ctx, g, c) == 'self.api.mempool_hashes']
    om = [c for c in q.own_calls(g) if q.callee_name(ctx, g, c) == 'self.api.on_mempool']
    pm = [c for c in q.own_calls(g) if q.callee_name(ctx, g, c) == 'self._process_mempool']
    if len(lists) != 1 or len(om) != 1 or len(pm) != 1 or len(om[0].args) != 2 or not isinstance(om[0].args[1], ast.Name):
        raise AnalysisError(f'{g.key}: listing / processing / on_mempool(touched, height) calls not recognised')
    hv = om[0].args[1].id
    tv = norm(om[0].args[0])
    hdefs = [s for s in q.assigns(ctx, g, hv)]
    ln = cfg.node(q.stmt(lists[0]))
    ok = len(hdefs) == 1 and isinstance(hdefs[0], ast.Assign) and isinstance(hdefs[0].value, ast.Call) \
        and q.callee_name(ctx, g, hdefs[0].value) in ('self.api.cached_height', 'self.api.height') or \
        (len(hdefs) == 1 and isinstance(hdefs[0].value, ast.Await))
    why = f'`{hv}` is not a single reading of the daemon height'
    if ok:
        hn = cfg.node(hdefs[0])
        # within one turn of the loop: reading -> listing (never listing -> reading -> use) ...
        ok = cfg.dominates(hn, ln)
        why = f'the height `{hv}` is read after the listing was requested: a block that arrives while the listing is in flight makes ' \
              'the old listing pass for the new height'
    if ok:
        # ... and the second reading guards the processing
        verdict = bracketed_listing(ctx, g, hdefs[0], lists[0], pm[0], reason=True)
        ok = verdict == 'ok'
        why = why if verdict == 'order' else 'the listing is processed without re-reading the daemon height and retrying when it moved'
    ctx.check(ok, rule, ctx.key(g, q.stmt(lists[0]), 'listing bracketed by equal heights'),
              'the listing is requested between two readings of the daemon height and processed only when they agree',
              why, loc=ctx.loc(g, lists[0]))
    n += 1
    # the height handed to _process_mempool and to on_mempool is that reading
    okp = len(pm[0].args) == 3 and norm(pm[0].args[2]) == hv and norm(pm[0].args[1]) == tv
    ctx.check(okp, rule, ctx.key(g, q.stmt(pm[0]), 'same height processed and reported'),
              'the refresh is processed at, and reported for, the bracketed height with the accumulating touched set',
              f'the refresh is processed with `{", ".join(norm(a) for a in pm[0].args)}` but reported with `{tv}, {hv}`', loc=ctx.loc(g, pm[0]))
    n += 1
    # (ii) unconditional hand-over after a completed refresh
    trs = [s for s in g.own_nodes() if isinstance(s, ast.Try) and q.in_body(pm[0], s.body)]
    oks, whys = False, 'on_mempool is not called from the else-branch of the try around _process_mempool'
    if len(trs) == 1 and q.in_body(om[0], trs[0].orelse):
        conds = [(norm(t), b) for t, b, _p in pr.control_conditions(q.stmt(om[0]), trs[0])]
        oks = not conds
        whys = f'the report is skipped unless {conds}: an (empty) refresh at a height that was already reported is how the join ' \
               'learns that the mempool has caught up with a repeated / re-organised block at that height'
        if oks:
            resets = [s for s in trs[0].orelse if isinstance(s, ast.Assign) and norm(s.targets[0]) == tv and norm(s.value) == 'set()'
                      and s.lineno > q.stmt(om[0]).lineno]
            oks = len(resets) == 1
            whys = f'`{tv}` is not re-bound to a fresh set after the hand-over (ownership passes to the notifications)'
    ctx.check(oks, rule, ctx.key(g, q.stmt(om[0]), 'every completed refresh reported'),
              'every completed refresh is reported to on_mempool, unconditionally, and the touched set starts afresh', whys,
              loc=ctx.loc(g, om[0]))
    return n + 1
