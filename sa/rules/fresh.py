'''Freshness / await-atomicity rules shared by C07, C10, C11.

An *epoch* is an integer field bumped by the invalidator of some cached data.  A read that crosses a
suspension point is *validated* when the code snapshots the epoch before the read, compares it afterwards
and only proceeds on equality (the idiom of SessionManager.tx_hashes_at_blockheight).  Definitions:

  validated edge   the equal-branch of `if <snapshot> == self.<epoch>` (or the exit of a
                   `while <snapshot> != self.<epoch>` style loop) whose snapshot is (re)taken before the read
  dirty(f)         f can return after a suspension that is not followed by a validated edge
  clean call       `await g(...)` with g a repo coroutine that is not dirty - it does not count as a
                   suspension for its caller
'''
import ast

from ..model import AnalysisError, norm, walk_own
from .. import q, pathrules as pr, dataflow as df
from ..suspend import Suspension
from ..cfg import head_exprs


class Fresh:
    def __init__(self, ctx, epochs):
        '''epochs: set of canonical epoch paths, e.g. {'self._touched_count', 'self._reorg_count'}.'''
        self.ctx = ctx
        self.epochs = set(epochs)
        self.sus = Suspension(ctx)
        self.memo = {}

    # -- validation edges of a function
    def validation_tests(self, f):
        '''[(If stmt, snapshot name, epoch path, equal_branch_is_body)] in f.'''
        out = []
        for s in f.own_nodes():
            if not isinstance(s, ast.If):
                continue
            # the comparison may be one conjunct of the test (`if snap == self.epoch and <more>`): the body is then still
            # entered only on equality; a negated form must be the whole test
            tests = [(s.test, True)]
            if isinstance(s.test, ast.BoolOp) and isinstance(s.test.op, ast.And):
                tests = [(v, False) for v in s.test.values]
            for t, whole in tests:
                if isinstance(t, ast.Compare) and len(t.ops) == 1 and isinstance(t.ops[0], (ast.Eq, ast.NotEq)):
                    if not whole and not isinstance(t.ops[0], ast.Eq):
                        continue
                    l, r = t.left, t.comparators[0]
                    for a, b in ((l, r), (r, l)):
                        if isinstance(a, ast.Name) and self.ctx.res.canon(b, f) in self.epochs:
                            out.append((s, a.id, self.ctx.res.canon(b, f), isinstance(t.ops[0], ast.Eq)))
        return out

    def snapshot_ok(self, f, cfg, snap, epoch, read_node):
        '''The snapshot `snap = self.<epoch>` is taken on every path to the read after the previous read,
        with no suspension between snapshot and read.'''
        defs = [s for s in q.assigns(self.ctx, f, snap)]
        good = [s for s in defs if isinstance(s, ast.Assign) and self.ctx.res.canon(s.value, f) == epoch]
        if not good or len(good) != len(defs):
            return False, f'{snap} is not (only) assigned from {epoch}'
        gn = {cfg.node(s) for s in good}
        if pr.path_avoiding(cfg, [cfg.entry], [read_node], gn) is not None:
            return False, f'the read can be reached without snapshotting {epoch}'
        if cfg.find_path([read_node], {read_node}, avoiding=gn) is not None:
            return False, f'the read can be repeated without re-taking the snapshot of {epoch}'
        # (a suspension between the snapshot and the read only widens the validated window: an invalidation inside it makes
        # the comparison fail and the read is redone - safe, so it is not required that the snapshot be adjacent to the read)
        return True, None

    def snapshot_after(self, f, cfg, snap, epoch, susp_node, test_node):
        '''The snapshot is (re)taken on every path from the suspension to the test: whatever is read after the suspension
        and before the snapshot is read without a further suspension in between (any such suspension is judged on its
        own), so it is as fresh as the snapshot the test validates.'''
        defs = [s for s in q.assigns(self.ctx, f, snap)]
        good = [s for s in defs if isinstance(s, ast.Assign) and self.ctx.res.canon(s.value, f) == epoch]
        if not good or len(good) != len(defs):
            return False
        gn = {cfg.node(s) for s in good}
        return pr.path_avoiding(cfg, [susp_node], [test_node], gn) is None

    def _reaching(self, cfg, target, avoiding=()):
        rg = cfg.g.reverse(copy=False)
        seen = set()
        stack = [target]
        avoiding = set(avoiding)
        while stack:
            n = stack.pop()
            for m in rg.successors(n):
                if m in seen or m in avoiding:
                    continue
                seen.add(m)
                stack.append(m)
        return seen

    # -- suspension classification with clean callees
    def stmt_unvalidated_suspension(self, stmt, f):
        '''Reason if the statement head contains a suspension that is not a clean repo call.'''
        for n in head_exprs(stmt):
            if isinstance(n, ast.Await):
                v = n.value
                if isinstance(v, ast.Call):
                    callee = self.ctx.res.resolve_ref(v.func, f)
                    if callee is not None and callee.is_async:
                        d = self.dirty(callee)
                        if d:
                            return f'await {callee.qual} ({d})'
                        continue
                r = self.sus.may_suspend_expr(v, f)
                if r:
                    return r
        if isinstance(stmt, (ast.AsyncFor, ast.AsyncWith)):
            return 'async for/with'
        return None

    def dirty(self, f, stack=()):
        '''None if every suspension in f is followed by a validated edge before f returns; else a reason.'''
        if f.key in self.memo:
            return self.memo[f.key]
        if f.key in stack:
            return None
        self.memo[f.key] = None   # recursion guard (optimistic)
        cfg = self.ctx.cfg(f)
        tests = self.validation_tests(f)
        # remove validated equal-edges: a suspension is fine iff exit is unreachable from it without them
        cut_edges = set()
        valid_tests = []
        for (s, snap, epoch, eq_is_body) in tests:
            tn = cfg.node(s)
            for m in cfg.g.successors(tn):
                kinds = cfg.g[tn][m]['kinds']
                if ('true' in kinds and eq_is_body) or ('false' in kinds and not eq_is_body):
                    cut_edges.add((tn, m))
            valid_tests.append((s, snap, epoch, tn))
        reason = None
        for n in cfg.g.nodes:
            a = cfg.ast(n)
            if a is None or cfg.kind(n) in ('with_exit', 'finally'):
                continue
            r = self.stmt_unvalidated_suspension(a, f)
            if not r:
                continue
            # is exit reachable from n without crossing a validated edge whose snapshot protocol holds for n?
            ok_cut = set()
            for (s, snap, epoch, tn) in valid_tests:
                good, _why = self.snapshot_ok(f, cfg, snap, epoch, n)
                if good or self.snapshot_after(f, cfg, snap, epoch, n, tn):
                    ok_cut |= {e for e in cut_edges if e[0] == tn}
            if self._reaches_exit_without(cfg, n, ok_cut):
                reason = f'{f.qual}:{getattr(a, "lineno", 0)} {r}'
                break
        self.memo[f.key] = reason
        return reason

    def _reaches_exit_without(self, cfg, src, cut):
        seen = set()
        stack = [src]
        while stack:
            n = stack.pop()
            for m in cfg.g.successors(n):
                if (n, m) in cut or m in seen:
                    continue
                if m == cfg.exit:
                    return True
                seen.add(m)
                stack.append(m)
        return False

    def unvalidated_before(self, f, stmt):
        '''Suspensions in f from which `stmt` is reachable without crossing a validated edge -> [(node, reason)].'''
        cfg = self.ctx.cfg(f)
        target = cfg.node(stmt)
        tests = self.validation_tests(f)
        out = []
        for n in cfg.g.nodes:
            a = cfg.ast(n)
            if a is None or cfg.kind(n) in ('with_exit', 'finally') or n == target:
                continue
            r = self.stmt_unvalidated_suspension(a, f)
            if not r:
                continue
            cut = set()
            for (s, snap, epoch, eq_is_body) in tests:
                tn = cfg.node(s)
                good, _w = self.snapshot_ok(f, cfg, snap, epoch, n)
                if not good and not self.snapshot_after(f, cfg, snap, epoch, n, tn):
                    continue
                for m in cfg.g.successors(tn):
                    kinds = cfg.g[tn][m]['kinds']
                    if ('true' in kinds and eq_is_body) or ('false' in kinds and not eq_is_body):
                        cut.add((tn, m))
            # reachability n -> target avoiding cut edges
            seen, stack, hit = set(), [n], False
            while stack and not hit:
                x = stack.pop()
                for m in cfg.g.successors(x):
                    if (x, m) in cut or m in seen:
                        continue
                    if m == target:
                        hit = True
                        break
                    seen.add(m)
                    stack.append(m)
            if hit:
                out.append((n, r))
        return out


def rule_fill(ctx, fr, f, cache, rule):
    '''Every store into `cache` inside f is not preceded by an unvalidated suspension.'''
    n = 0
    for s in f.own_nodes():
        if isinstance(s, ast.Assign) and isinstance(s.targets[0], ast.Subscript) and ctx.res.canon(s.targets[0].value, f) == cache:
            n += 1
            bad = fr.unvalidated_before(f, s)
            cfg = ctx.cfg(f)
            ctx.check(not bad, rule, ctx.key(f, s),
                      f'the value stored in {cache} was validated against the invalidation epoch after the last suspension',
                      f'a value read across a suspension is stored in {cache} without re-validation: an invalidation that happened '
                      'during the read is lost and the stale value is served from then on ('
                      + '; '.join(f'{cfg.label(x)}: {r}' for x, r in bad[:2]) + ')', loc=ctx.loc(f, s))
    return n


def rule_epoch_bumped(ctx, f, epoch, rule, must_precede=None):
    '''`self.<epoch> += 1` lies on every path through f (unconditionally) and before `must_precede` nodes.'''
    cfg = ctx.cfg(f)
    bumps = [s for s in f.own_nodes() if isinstance(s, ast.AugAssign) and isinstance(s.op, ast.Add)
             and ctx.res.canon(s.target, f) == epoch]
    ok = len(bumps) >= 1
    wit = None
    why = f'{epoch} is never incremented in {f.qual}'
    if ok:
        bn = {cfg.node(b) for b in bumps}
        targets = must_precede or [cfg.exit]
        for t in targets:
            p = pr.path_avoiding(cfg, [cfg.entry], [t], bn)
            if p is not None:
                ok = False
                wit = cfg.describe_path(p)
                why = f'a path through {f.qual} skips the increment of {epoch}: in-flight reads that raced this invalidation are not re-done'
    ctx.check(ok, rule, ctx.key(f, None, f'{epoch} bumped on every path'),
              f'{epoch} is incremented on every path, before the invalidated data can be observed', why, witness=wit,
              loc=ctx.loc(f, f.node))
    return 1
