'''C06 - shutdown at any moment leaves a consistent database and keeps finished work.

Decided: CTX (every site that starts a chain-mutating job - worker thread or direct call - runs in a
coroutine that is only ever executed as the argument of run_with_lock), SHIELD (run_with_lock =
shield(lock(coro)) with the lock taken inside the shield), OKFLAG (mutations lie between ok=False and
ok=True; every normal exit after ok=False passes ok=True), CANCEL (the CancelledError handler, on
shutdown, reaches the shielded safe flush on every path with no unshielded suspension before it;
flush_if_safe flushes UTXOs only under self.ok).
Not decided: equality of the reopened DB with a clean index for every cancellation instant.
'''
import ast

from ..model import AnalysisError, norm, walk_own
from .. import q, pathrules as pr
from ..chain import ChainModel
from ..suspend import Suspension

EXPLANATION = ('static necessary conditions of C06: lock+shield context of every chain-mutating job over the call graph, '
               'structure of run_with_lock, ok-flag bracket around all in-memory mutations on all CFG paths, shutdown handler '
               'reaches the shielded safe flush. Does NOT decide DB equality after each cancellation instant.')
ASSUMPTIONS = ['asyncio.shield keeps its inner coroutine running when the outer await is cancelled',
               'asyncio.Lock is released when the `async with` block is left, including by cancellation',
               'the block-processing task is the only one that starts chain-mutating jobs (checked by CTX over the whole call graph)']

# call sites inside these functions are start-up / reopen scrubbing: no block job can be running because
# the same task that would start one is executing them sequentially
BARRIER = {'electrumx/server/db.py::DB._open_dbs': 'open-time scrubbing runs in the processing task itself, between jobs'}
# single-threaded offline tool
TOOL_UNITS = {'electrumx_compact_history'}


class LockCtx:
    def __init__(self, ctx):
        self.ctx = ctx
        self.lock_func = ctx.func('bp', 'BlockProcessor.run_with_lock')
        self.memo = {}

    def is_lock_arg(self, call):
        '''`call` is passed directly as the coroutine argument of run_with_lock(...).'''
        par = getattr(call, '_parent', None)
        if isinstance(par, ast.Call) and call in par.args:
            # find the function containing par
            f = self._func_of(par)
            callee = self.ctx.res.resolve_ref(par.func, f) if f else None
            return callee is not None and callee.key == self.lock_func.key
        return False

    def _func_of(self, node):
        n = node
        while n is not None:
            if isinstance(n, (ast.FunctionDef, ast.AsyncFunctionDef)) and hasattr(n, '_func'):
                return n._func
            n = getattr(n, '_parent', None)
        return None

    def sites(self, f):
        '''Invocation sites of f: [(caller Func, Call node whose result/target is f, kind)].'''
        out = []
        for (caller, callee, kind, node) in self.ctx.cg.callers(f):
            out.append((caller, node, kind))
        return out

    def locked(self, f, stack=()):
        '''f only ever executes while the state lock is held (inside the shield).'''
        if f.key in self.memo:
            return self.memo[f.key]
        if f.key == self.lock_func.key or (f.parent is not None and f.parent.key == self.lock_func.key):
            self.memo[f.key] = (True, ['implements the lock'])
            return self.memo[f.key]
        if f.key in stack:
            return (False, ['recursive'])
        sites = self.sites(f)
        if not sites:
            self.memo[f.key] = (False, [f'{f.qual} has no call site inside the tree (task root / external entry)'])
            return self.memo[f.key]
        verdict, why = True, []
        for caller, node, kind in sites:
            if kind in ('AWAIT', 'CALL'):
                if self.is_lock_arg(node):
                    continue
                if kind == 'CALL' and f.is_async and not isinstance(getattr(node, '_parent', None), ast.Await):
                    # coroutine object created but not awaited here and not given to run_with_lock
                    par = getattr(node, '_parent', None)
                    if not (isinstance(par, ast.Call) and self.is_lock_arg(node)):
                        # e.g. group.spawn(self.f()) - runs as its own task
                        if isinstance(par, ast.Call):
                            verdict = False
                            why.append(f'{self.ctx.loc(caller, node)} {caller.qual}: {norm(par)[:80]} (runs as a separate task)')
                            continue
                ok, w = self.locked(caller, stack + (f.key,))
                if not ok:
                    verdict = False
                    why.append(f'{self.ctx.loc(caller, node)} {caller.qual}: {norm(getattr(node, "_parent", node))[:80]}')
            elif kind == 'THREAD':
                if self.is_lock_arg(node):
                    continue
                ok, w = self.locked(caller, stack + (f.key,))
                if not ok:
                    verdict = False
                    why.append(f'{self.ctx.loc(caller, node)} {caller.qual}: {norm(node)[:80]}')
            else:   # TASK / REF: runs on its own / escapes
                verdict = False
                why.append(f'{self.ctx.loc(caller, node)} {caller.qual}: passed as {kind}')
        self.memo[f.key] = (verdict, why)
        return self.memo[f.key]


def rule_ctx(ctx, cm):
    lc = LockCtx(ctx)
    mut = cm.sync_mutators()
    res = ctx.res
    n_sites = 0
    jobs = set()
    # functions reached only from barrier functions are open-time code as well
    barrier = set(BARRIER)
    grew = True
    while grew:
        grew = False
        for f in ctx.repo.funcs.values():
            if f.key in barrier:
                continue
            callers = ctx.cg.callers(f)
            if callers and all(c[0].key in barrier for c in callers):
                barrier.add(f.key)
                grew = True
    for f in ctx.repo.funcs.values():
        if not f.is_async or f.key in barrier or f.unit.relpath in TOOL_UNITS:
            continue
        sites = []
        for c in q.own_calls(f):
            if res.is_ext(c, f, 'run_in_thread') and c.args:
                tgt = res.resolve_ref(c.args[0], f)
                if tgt is not None and tgt.key in mut:
                    sites.append((c, f'worker-thread job {tgt.qual}', tgt))
            else:
                tgt = res.resolve_ref(c.func, f)
                if tgt is not None and not tgt.is_async and tgt.key in mut:
                    sites.append((c, f'direct call of {tgt.qual}', tgt))
        for node, text in cm.mutations(f):
            sites.append((node, f'in-line mutation ({text})', None))
        for node, text, tgt in sites:
            n_sites += 1
            if tgt is not None:
                jobs.add(tgt.qual)
            if isinstance(node, ast.Call) and lc.is_lock_arg(node):
                ctx.ok('C06.CTX', ctx.key(f, q.stmt(node)), f'{text} is the direct argument of run_with_lock', ctx.loc(f, node))
                continue
            ok, why = lc.locked(f)
            ctx.check(ok, 'C06.CTX', ctx.key(f, q.stmt(node)),
                      f'{text}: {f.qual} only ever runs as the argument of run_with_lock',
                      f'{text} can run outside run_with_lock (a cancellation then lets the shutdown flush overlap it, '
                      f'or interrupts it between heights); {f.qual} is reached unlocked from: ' + '; '.join(why),
                      witness={'job': mut.get(tgt.key) if tgt else text, 'unlocked_sites': why}, loc=ctx.loc(f, node))
    ctx.floor('C06.CTX', 3, n_sites)
    ctx.note(f'C06.CTX chain-mutating jobs found: {sorted(jobs)}; sync mutators: {len(mut)}')
    need = {'BlockProcessor.advance_block', 'BlockProcessor.backup_block', 'DB.flush_dbs'}
    if not need <= jobs:
        raise AnalysisError(f'C06.CTX: expected thread jobs {need - jobs} not recognised as chain-mutating')
    return lc


def rule_shield(ctx):
    f = ctx.func('bp', 'BlockProcessor.run_with_lock')
    coro = f.params[1]
    shields = [c for c in q.own_calls(f) if ctx.res.is_ext(c, f, 'shield')]
    ok, why = False, 'shape not recognised'
    if len(shields) == 1 and len(shields[0].args) == 1 and isinstance(shields[0].args[0], ast.Call):
        sh = shields[0]
        inner = ctx.res.resolve_ref(sh.args[0].func, f)
        par = getattr(sh, '_parent', None)
        awaited = isinstance(par, ast.Await)
        outer_ctx = [a for a in pr.control_conditions(sh, f.node)]
        in_with = any(isinstance(a, (ast.AsyncWith, ast.With)) for a in _ancestors(sh, f.node))
        if inner is None or inner.parent is not f or not inner.is_async:
            why = 'the shielded awaitable is not the nested lock-taking coroutine'
        elif not awaited:
            why = 'the shield is not awaited'
        elif in_with:
            why = 'the shield is applied inside a `with` block: the lock would be released on cancellation while the job still runs'
        else:
            locks = [s for s in inner.node.body if isinstance(s, ast.AsyncWith) and len(s.items) == 1 and
                     ctx.res.canon(s.items[0].context_expr, inner) == 'self.state_lock']
            all_awaits = [n for n in inner.own_nodes() if isinstance(n, (ast.Await, ast.AsyncFor, ast.AsyncWith)) and n not in locks]
            if len(locks) == 1:
                aw = [n for n in walk_own(locks[0]) if isinstance(n, ast.Await) and norm(n.value) == coro]
                outside = [n for n in f.own_nodes() if isinstance(n, ast.Await) and norm(n.value) == coro]
                stray = [n for n in all_awaits if not q.in_body(n, locks[0].body)]
                if len(aw) == 1 and not outside and not stray:
                    ok = True
                else:
                    why = 'the coroutine is not awaited exactly once, inside the locked block (or something else is awaited outside it)'
            else:
                why = 'the nested coroutine does not take `async with self.state_lock:` around the job'
    elif not shields:
        why = 'no asyncio.shield call: a cancellation aborts the job and the lock protocol'
    ctx.check(ok, 'C06.SHIELD', ctx.key(f, None, 'shield(lock(coro))'),
              'run_with_lock awaits shield(run_locked()) and run_locked awaits the coroutine under state_lock',
              why, loc=ctx.loc(f, f.node))
    # the lock object is created once and never replaced
    writes = []
    for g in ctx.repo.funcs.values():
        if g.cls == 'BlockProcessor':
            for s in q.assigns(ctx, g, 'self.state_lock'):
                writes.append((g, s))
    ctx.check(len(writes) == 1 and writes[0][0].name == '__init__', 'C06.SHIELD',
              'electrumx/server/block_processor.py :: BlockProcessor :: state_lock created once',
              'state_lock is created in __init__ only', f'state_lock assigned at {[ctx.loc(g, s) for g, s in writes]}')
    return 2


def _ancestors(node, stop):
    n = getattr(node, '_parent', None)
    while n is not None and n is not stop:
        yield n
        n = getattr(n, '_parent', None)


def rule_okflag(ctx, cm):
    n = 0
    mut = cm.sync_mutators()
    for name in ('BlockProcessor.advance_block', 'BlockProcessor.backup_block'):
        f = ctx.func('bp', name)
        cfg = ctx.cfg(f)
        offs = [s for s in q.assigns(ctx, f, 'self.ok') if isinstance(s, ast.Assign) and norm(s.value) == 'False']
        ons = [s for s in q.assigns(ctx, f, 'self.ok') if isinstance(s, ast.Assign) and norm(s.value) == 'True']
        if len(offs) != 1 or len(ons) != 1:
            ctx.bad('C06.OKFLAG', ctx.key(f, None, 'bracket'), f'expected one `self.ok = False` and one `self.ok = True`, '
                    f'found {len(offs)} / {len(ons)}', loc=ctx.loc(f, f.node))
            n += 1
            continue
        a, b = cfg.node(offs[0]), cfg.node(ons[0])
        # mutation sites: direct, and calls of sync mutators
        sites = list(cm.mutations(f))
        for c in q.own_calls(f):
            tgt = ctx.res.resolve_ref(c.func, f)
            if tgt is None and isinstance(c.func, ast.Name):
                al = ctx.res.aliases(f).get(c.func.id)
                tgt = ctx.res.resolve_ref(al, f) if al is not None else None
            if tgt is not None and tgt.key in mut and tgt.name not in ('flush_data',):
                sites.append((c, f'call of {tgt.qual}'))
        if len(sites) < 8:
            raise AnalysisError(f'{f.key}: only {len(sites)} mutation sites recognised')
        for node, text in sites:
            s = q.stmt(node)
            m = cfg.node(s)
            dom = cfg.dominates(a, m)
            after = cfg.find_path([b], {m})
            leak = pr.path_avoiding(cfg, [m], [cfg.exit], {b})
            ok = dom and after is None and leak is None
            why = []
            if not dom:
                why.append('can run before `self.ok = False`')
            if after is not None:
                why.append('can run after `self.ok = True`')
            if leak is not None:
                why.append('a normal exit follows it without `self.ok = True`')
            ctx.check(ok, 'C06.OKFLAG', ctx.key(f, s), f'{text} lies inside the ok=False .. ok=True bracket',
                      f'{text}: ' + ', '.join(why) + ' (a shutdown flush would then persist a half-applied block, or finished work is not flushed)',
                      witness=cfg.describe_path(leak or after) if (leak or after) else None, loc=ctx.loc(f, s))
            n += 1
        leak = pr.path_avoiding(cfg, [a], [cfg.exit], {b})
        ctx.check(leak is None, 'C06.OKFLAG', ctx.key(f, offs[0], 'restored on every normal exit'),
                  'every normal exit after `self.ok = False` passes `self.ok = True`',
                  'a normal exit leaves ok False for good: the shutdown flush is then skipped and finished blocks are lost',
                  witness=cfg.describe_path(leak) if leak else None, loc=ctx.loc(f, offs[0]))
        n += 1
    # nobody else sets ok
    others = []
    for g in ctx.repo.funcs.values():
        if g.qual in ('BlockProcessor.advance_block', 'BlockProcessor.backup_block', 'BlockProcessor.__init__'):
            continue
        for node in g.own_nodes():
            if isinstance(node, (ast.Assign, ast.AugAssign)):
                for t in (node.targets if isinstance(node, ast.Assign) else [node.target]):
                    if isinstance(t, ast.Attribute) and t.attr == 'ok' and \
                            ctx.res.type_of(t.value, g) == ('inst', 'BlockProcessor'):
                        others.append(f'{ctx.loc(g, node)} {norm(node)}')
    ctx.check(not others, 'C06.OKFLAG', 'electrumx/server/block_processor.py :: BlockProcessor :: ok written only by advance/backup',
              'ok is written only by the two block jobs', f'ok also written at {others}')
    return n + 1


def rule_cancel(ctx, lc):
    f = ctx.func('bp', 'BlockProcessor.fetch_and_process_blocks')
    cfg = ctx.cfg(f)
    sus = Suspension(ctx)
    handlers = []
    for t in [n for n in f.own_nodes() if isinstance(n, ast.Try)]:
        for h in t.handlers:
            names = [norm(x) for x in (h.type.elts if isinstance(h.type, ast.Tuple) else [h.type])] if h.type else []
            if any(nm.split('.')[-1] == 'CancelledError' for nm in names):
                handlers.append((t, h))
    if len(handlers) != 1:
        raise AnalysisError(f'{f.key}: expected exactly one CancelledError handler')
    t, h = handlers[0]
    # the try body must contain the processing loop (every job start is covered by the handler)
    job_calls = [c for c in q.own_calls(f) if ctx.res.resolve_ref(c.func, f) is not None
                 and ctx.res.resolve_ref(c.func, f).name in ('advance_blocks', 'on_caught_up', 'reorg_chain')]
    inside = all(q.in_body(c, t.body) for c in job_calls)
    ctx.check(len(job_calls) >= 3 and inside, 'C06.CANCEL', ctx.key(f, t, 'covers the processing loop'),
              'advance / caught-up / reorg steps all run inside the try that handles cancellation',
              'a processing step runs outside the try that handles cancellation', loc=ctx.loc(f, t))
    fis = ctx.func('bp', 'BlockProcessor.flush_if_safe')
    flushes = [c for c in walk_own(h) if isinstance(c, ast.Call) and ctx.res.resolve_ref(c.func, f) is not None
               and ctx.res.resolve_ref(c.func, f).key == lc.lock_func.key and c.args and isinstance(c.args[0], ast.Call)
               and ctx.res.resolve_ref(c.args[0].func, f) is not None and ctx.res.resolve_ref(c.args[0].func, f).key == fis.key]
    # decided per path through the handler (nested `if shutdown`, a guard clause for the other case, an extracted helper
    # the normaliser inlined: all the same): shutdown => the safe flush is awaited and then the handler returns;
    # otherwise the handler does not return
    from .. import paths as P
    ok = len(flushes) == 1 and isinstance(getattr(flushes[0], '_parent', None), ast.Await)
    why = 'handler does not await run_with_lock(flush_if_safe())'
    before = []
    if ok:
        fl_stmt = q.stmt(flushes[0])
        hp = P.paths(h.body)
        n_shut = 0
        for pth in hp:
            sd = P.truthy(pth, 'shutdown_event.is_set()')
            evs = [st_ for st_, _e in pth.events]
            if sd is None:
                ok, why = False, f'a path through the handler is not decided by shutdown_event.is_set(): {pth.cond_texts()[:3]}'
                break
            if sd:
                n_shut += 1
                if pth.exit == 'raise' and fl_stmt not in evs:
                    ok, why = False, 'the handler can leave by an exception on shutdown without the safe flush'
                elif pth.exit != 'return':
                    ok, why = False, 'the shutdown branch does not return (processing would continue after shutdown)'
                elif fl_stmt not in evs:
                    ok, why = False, 'the handler can return on shutdown without the safe flush'
                else:
                    before += [st_ for st_ in evs[:evs.index(fl_stmt)] if st_ not in before]
                if len(pth.decisions()) != 1:
                    ok, why = False, f'the safe flush depends on more than the shutdown request: {pth.cond_texts()}'
            elif pth.exit == 'return':
                ok, why = False, 'the handler returns although no shutdown was requested'
        if ok and not n_shut:
            ok, why = False, 'no shutdown path in the handler'
    ctx.check(ok, 'C06.CANCEL', ctx.key(f, h, 'safe flush on shutdown'),
              'on shutdown the handler awaits run_with_lock(flush_if_safe()) on every path before returning',
              why, loc=ctx.loc(f, h))
    n = 2
    # no unshielded suspension between handler entry and the safe flush (each one is a cancellation
    # instant at which the finished blocks would be dropped)
    if flushes:
        risky = []
        for s in before:
            for aw in [x for x in walk_own(s) if isinstance(x, ast.Await)] + ([s.value] if isinstance(s, ast.Expr) and isinstance(s.value, ast.Await) else []):
                why_s = sus.may_suspend_expr(aw.value, f)
                if why_s and f'{ctx.loc(f, aw)} {norm(aw)}: {why_s}' not in risky:
                    risky.append(f'{ctx.loc(f, aw)} {norm(aw)}: {why_s}')
        ctx.check(not risky, 'C06.CANCEL', ctx.key(f, h, 'no suspension before the safe flush'),
                  'nothing ahead of the safe flush in the handler can suspend (and so be cancelled or re-raise)',
                  'a suspension point ahead of the safe flush can raise CancelledError out of the handler and skip the flush: '
                  + '; '.join(risky), loc=ctx.loc(f, h))
        n += 1
    # flush_if_safe: every path with self.ok true awaits flush(True), no path with self.ok false flushes
    fl = [c for c in q.own_calls(fis) if ctx.res.resolve_ref(c.func, fis) is not None and ctx.res.resolve_ref(c.func, fis).name == 'flush']
    good = len(fl) == 1 and len(fl[0].args) == 1 and norm(fl[0].args[0]) == 'True' and isinstance(getattr(fl[0], '_parent', None), ast.Await)
    skipped = False
    if good:
        fls = q.stmt(fl[0])
        for pth in P.paths(fis.node.body):
            okv = P.truthy(pth, 'self.ok')
            has = any(st_ is fls for st_, _e in pth.events)
            if okv is None or len(pth.decisions()) != 1:
                good = False
            elif okv and not has and pth.exit != 'raise':
                skipped = True
            elif not okv and has:
                good = False
    ctx.check(good, 'C06.CANCEL', ctx.key(fis, None, 'flush(True) iff ok'),
              'flush_if_safe awaits flush(True) exactly under `if self.ok`',
              'flush_if_safe does not flush everything exactly when self.ok holds', loc=ctx.loc(fis, fis.node))
    ctx.check(not skipped, 'C06.CANCEL', ctx.key(fis, None, 'flush on every ok path'),
              'when ok holds every path flushes', 'an ok path skips the flush', loc=ctx.loc(fis, fis.node))
    n += 1
    return n + 1


def run(ctx):
    cm = ChainModel(ctx)
    lc = rule_ctx(ctx, cm)
    ctx.rule('C06.SHIELD', lambda: rule_shield(ctx), 2)
    ctx.rule('C06.OKFLAG', lambda: rule_okflag(ctx, cm), 20)
    ctx.rule('C06.CANCEL', lambda: rule_cancel(ctx, lc), 4)
    from .flushall import rule_flushall
    ctx.rule('C06.FLUSHALL', lambda: rule_flushall(ctx, 'C06'), 3)
    ctx.rule('C06.CANCELPROP', lambda: rule_cancel_propagates(ctx), 10)
    ctx.rule('C06.FLUSHOFFLINE', lambda: rule_flush_offline(ctx), 3)
    ctx.rule('C06.LOCKOFFLINE', lambda: rule_lock_offline(ctx), 3)
    from . import c04 as _c04
    ctx.rule('C06.STATEALIAS', lambda: _c04.rule_statealias(ctx, 'C06'), 2)
    ctx.rule('C06.FSMETA', lambda: _c04.rule_file_offsets(ctx, 'C06'), 5)
    ctx.rule('C06.STATEMOVE', lambda: _c04.rule_state_moves_with_commit(ctx, 'C06'), 2)
    # a flush job whose batch is discarded (the shielded job fails, the process is stopped) must still hold what it had
    ctx.rule('C06.UNFLUSHEDKEPT', lambda: _c04.rule_unflushed_kept(ctx, 'C06'), 1)
    ctx.rule('C06.HEIGHTCACHE', lambda: rule_height_cache(ctx), 2)
    # each backup job leaves the durable state consistent at one height: the history truncation belongs to
    # the same job as the UTXO commit (a stop between jobs is a legal cancellation instant)
    from ..effects import InlineGraph
    from .flushcommon import commit_points
    from . import c05
    fb = ctx.func('db', 'DB.flush_backup')
    ig = InlineGraph(ctx, fb)
    cps, _ = commit_points(ig)
    if len(cps) == 1:
        ctx.rule('C06.JOBATOMIC', lambda: c05.rule_histtrunc(ctx, ig, cps[0], 'C06'), 7)
    else:
        ctx.bad('C06.JOBATOMIC', ctx.key(fb, None, 'commit point'), 'backup flush has no single UTXO commit with the state record',
                loc=ctx.loc(fb, fb.node))


def _task_closure(ctx, root, kinds=('AWAIT', 'CALL', 'COROARG')):
    seen, work = {}, [root]
    while work:
        g = work.pop()
        if g.key in seen:
            continue
        seen[g.key] = g
        for e in ctx.cg.callees(g, ('AWAIT', 'CALL')):
            work.append(e[1])
        for (caller, outer, inner, callee) in ctx.cg.coro_args:
            if caller.key == g.key and callee is not None:
                work.append(callee)
        for nested in g.nested.values():
            work.append(nested)
    return seen


def rule_cancel_propagates(ctx):
    '''The shutdown request reaches the block-processing task as ONE CancelledError.  Every coroutine the task can be
    suspended in must let it propagate to the handler in fetch_and_process_blocks: an `except CancelledError` / bare
    except / `except BaseException` below it that does not re-raise swallows the request - the server neither stops
    nor runs the safe flush.'''
    root = ctx.func('bp', 'BlockProcessor.fetch_and_process_blocks')
    clo = _task_closure(ctx, root)
    n = 0
    for g in clo.values():
        if not g.is_async:
            continue
        for t in [x for x in g.own_nodes() if isinstance(x, ast.Try)]:
            for h in t.handlers:
                names = [norm(x).split('.')[-1] for x in (h.type.elts if isinstance(h.type, ast.Tuple) else [h.type])] if h.type else ['*']
                if not any(nm in ('CancelledError', 'BaseException', '*') for nm in names):
                    continue
                if g.key == root.key:
                    continue      # the designated handler (decided by C06.CANCEL)
                n += 1
                # accepted: the handler re-raises on every path
                cfg = ctx.cfg(g)
                raises = [cfg.node(s) for s in walk_own(h) if isinstance(s, ast.Raise)]
                first = cfg.node(h.body[0]) if h.body else None
                ok = first is not None and bool(raises) and pr.path_avoiding(cfg, [first], [cfg.exit], set(raises)) is None \
                    and not any(isinstance(s, (ast.Return, ast.Break, ast.Continue)) for s in walk_own(h))
                # ... and only if the body can actually suspend
                ctx.check(ok, 'C06.CANCELPROP', ctx.key(g, h, '/'.join(names)),
                          'the handler re-raises the cancellation on every path',
                          f'{g.qual} catches {"/".join(names)} without re-raising: a shutdown request that arrives while the processing '
                          'task is suspended here is swallowed - the task keeps indexing, the handler in fetch_and_process_blocks never '
                          'runs and finished blocks are not flushed', loc=ctx.loc(g, h))
    ctx.ok('C06.CANCELPROP', f'{root.unit.relpath} :: processing task :: {len(clo)} functions scanned',
           'no coroutine below the processing task swallows CancelledError')
    return n + len(clo)


def rule_height_cache(ctx, rule='C06.HEIGHTCACHE'):
    """The shutdown flush logs progress from Daemon.cached_height() (it must not ask the daemon: C06.FLUSHOFFLINE).  The
    cache is therefore written by exactly two places: the constructor and height(), which stores a reply.  Anything else
    that resets it (to None on a fail-over, say) makes the arithmetic of the final flush raise and the finished blocks are
    never written."""
    n = 0
    writers = []
    for f in ctx.repo.funcs.values():
        if f.cls != 'Daemon':
            continue
        for s_ in f.own_nodes():
            tg = s_.targets if isinstance(s_, ast.Assign) else ([s_.target] if isinstance(s_, (ast.AugAssign, ast.AnnAssign)) else [])
            for t in tg:
                if isinstance(t, ast.Attribute) and ctx.res.canon(t, f) == 'self._height':
                    writers.append((f, s_))
    for f, s_ in writers:
        n += 1
        ctx.check(f.name in ('__init__', 'height'), rule, ctx.key(f, s_, 'writer of the cached height'),
                  'the cached daemon height is written by the constructor and by height() only',
                  f'{f.qual} resets the cached daemon height (`{norm(s_)}`): cached_height() is read, without asking the daemon, by the '
                  'flush that runs on shutdown', loc=ctx.loc(f, s_))
    return n


def rule_flush_offline(ctx):
    '''The shutdown flush must complete whatever state the daemon is in: nothing on the path from flush_if_safe to the DB
    may await a daemon request (Daemon._send retries for ever while the daemon is down).'''
    fis = ctx.func('bp', 'BlockProcessor.flush_if_safe')
    clo = _task_closure(ctx, fis)
    dm = ctx.repo.path('daemon')
    bad = []
    for g in clo.values():
        for e in ctx.cg.callees(g, ('AWAIT',)):
            if e[1].unit.relpath == dm and e[1].is_async:
                bad.append(f'{ctx.loc(g, e[3])} {g.qual}: await {e[1].qual}')
    ctx.check(not bad, 'C06.FLUSHOFFLINE', ctx.key(fis, None, 'no daemon request on the shutdown flush path'),
              f'the shutdown flush path ({len(clo)} functions) awaits no daemon request',
              'the shutdown flush waits for the daemon (' + '; '.join(bad[:3]) + '): with the daemon unreachable the request is retried '
              'for ever, the flush never happens and the finished blocks are lost when the process is killed',
              loc=ctx.loc(fis, fis.node))
    return len(clo)


def rule_lock_offline(ctx):
    '''Nothing that runs inside run_with_lock() waits for the daemon: the section is shielded from cancellation and holds the
    state lock, so a daemon that has gone away would keep the shutdown handler (which needs the lock for its safe flush)
    waiting for ever.'''
    lc = LockCtx(ctx)
    dm = ctx.repo.path('daemon')
    n = 0
    bad = []
    for (caller, outer, inner, callee) in ctx.cg.coro_args:
        r = ctx.res.resolve_ref(outer.func, caller)
        if r is None or r.key != lc.lock_func.key or callee is None:
            continue
        n += 1
        clo = _task_closure(ctx, callee)
        for g in clo.values():
            for e in ctx.cg.callees(g, ('AWAIT',)):
                if e[1].unit.relpath == dm and e[1].is_async:
                    bad.append(f'{ctx.loc(caller, outer)} run_with_lock({callee.qual}) -> {g.qual} awaits {e[1].qual}')
    ctx.check(not bad, 'C06.LOCKOFFLINE', 'electrumx/server/block_processor.py :: run_with_lock :: no daemon wait inside the locked section',
              f'none of the {n} coroutines run under the lock awaits a daemon request',
              '; '.join(bad[:2]) + ': the wait is shielded from the shutdown cancellation and holds the lock the shutdown flush needs - '
              'with the daemon unreachable the server never stops')
    return n
