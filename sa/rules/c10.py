'''C10 - answers served to clients are never stale once the server is quiescent.

Decided: INVALIDATE (every notification with touched script hashes drops their cached histories on every
path, before the sessions are told), EPOCH (the invalidation epochs are bumped unconditionally with their
invalidation), FILL (no value read across a suspension is stored in a cache without an epoch re-check),
SIGNAL (reorg_chain signals after the backup loop on all non-exempt exits; the handler bumps the epoch and
clears both by-height caches without suspending in between), TOUCHED (script hashes of backed-out blocks
reach the notification: C03.TOUCHED), BYHEIGHT (by-height reads refuse heights above the flushed height).
Not decided: absence of every stale window; the DB readers' retry loops.
'''
import ast

from ..model import AnalysisError, norm, walk_own
from .. import q, pathrules as pr
from .fresh import Fresh, rule_fill, rule_epoch_bumped

EXPLANATION = ('static necessary conditions of C10 on SessionManager caches and BlockProcessor.reorg_chain: unconditional '
               'invalidation of touched histories, epoch bumps, epoch-validated cache fills across suspension points, reorg '
               'signal after the backup loop, handler clears both by-height caches atomically, touched propagation of '
               'backed-out blocks, by-height reads bounded by the flushed height. Does NOT decide absence of every stale window.')
ASSUMPTIONS = ['awaiting a repo coroutine suspends only where that coroutine reaches an external awaitable (await-CFG summaries)',
               'Event.set() wakes tasks already waiting even if clear() follows immediately (asyncio / aiorpcX Event)']
EPOCHS = {'self._touched_count', 'self._reorg_count'}

# the tip-mismatch return of reorg_chain cannot follow a completed backup of the same call: backup_block sets
# tip := prev-hash of the block just removed, which is the hash the next iteration compares with
EXEMPT_RETURN_TEST = 'hex_hash != hash_to_hex_str(self.state.tip)'


def rule_invalidate(ctx, rule='C10.INVALIDATE'):
    f = ctx.func('sess', 'SessionManager._notify_sessions')
    cfg = ctx.cfg(f)
    tparam = f.params[2]
    n = 0
    inval = []
    for s in f.own_nodes():
        if isinstance(s, ast.For):
            dels = []
            for x in walk_own(s):
                if isinstance(x, ast.Delete):
                    for t in x.targets:
                        if isinstance(t, ast.Subscript) and ctx.res.canon(t.value, f) == 'self._history_cache' and norm(t.slice) == norm(s.target):
                            dels.append(x)
                if isinstance(x, ast.Call) and isinstance(x.func, ast.Attribute) and x.func.attr == 'pop' and \
                        ctx.res.canon(x.func.value, f) == 'self._history_cache' and x.args and norm(x.args[0]) == norm(s.target):
                    dels.append(x)
            if dels:
                inval.append((s, dels))
    if len(inval) != 1:
        ctx.bad(rule, ctx.key(f, None, 'history cache invalidation'),
                f'expected one loop dropping touched entries of _history_cache in _notify_sessions, found {len(inval)}: '
                'cached histories of touched script hashes are served stale', loc=ctx.loc(f, f.node))
        return 1
    loop, dels = inval[0]
    # iteration covers touched ∩ cache keys
    it = norm(loop.iter)
    cachev = [k for k, v in ctx.res.aliases(f).items() if ctx.res.canon(v, f) == 'self._history_cache'] + ['self._history_cache']
    forms = set()
    for c in cachev:
        forms |= {f'set({c}).intersection({tparam})', f'{tparam}.intersection({c})', f'set({c}) & {tparam}', f'{tparam} & set({c})',
                  f'{tparam}.intersection(set({c}))', f'set({tparam}).intersection({c})', f'[hashX for hashX in {tparam} if hashX in {c}]'}
    forms |= {tparam, f'list({tparam})', f'set({tparam})'}
    ctx.check(it in forms, rule, ctx.key(f, loop, 'covers all touched'),
              'the loop visits every touched script hash that has a cached history',
              f'the invalidation loop does not range over all touched script hashes in the cache: `{it}`', loc=ctx.loc(f, loop))
    n += 1
    # unconditional: no control condition around the loop (a truthiness test of `touched` itself is fine)
    conds = [c for c in pr.control_conditions(loop, f.node)]
    bad_conds = [norm(t) for t, b, _p in conds if not (b and norm(t) == tparam)]
    ln = cfg.node(loop)
    skip = pr.path_avoiding(cfg, [cfg.entry], [cfg.exit], {ln}) if not [c for c in conds if norm(c[0]) == tparam] else None
    ctx.check(not bad_conds and skip is None, rule, ctx.key(f, loop, 'on every path'),
              'the invalidation runs on every path of a notification',
              'the invalidation is skipped on some notifications (guard: ' + ', '.join(bad_conds) + '): a reorganisation that ends at the '
              'height last notified, or a mempool-only change, leaves stale cached histories', witness=cfg.describe_path(skip) if skip else None,
              loc=ctx.loc(f, loop))
    n += 1
    # before the sessions are notified
    spawns = [c for c in q.own_calls(f) if isinstance(c.func, ast.Attribute) and c.func.attr == 'spawn']
    if not spawns:
        raise AnalysisError(f'{f.key}: session fan-out (group.spawn) not found')
    for sp in spawns:
        p = pr.path_avoiding(cfg, [cfg.entry], [cfg.node(q.stmt(sp))], {ln})
        ctx.check(p is None, rule, ctx.key(f, q.stmt(sp), 'after invalidation'),
                  'sessions are notified only after the cache was invalidated',
                  'sessions can be notified (and recompute statuses) before the cache is invalidated',
                  witness=cfg.describe_path(p) if p else None, loc=ctx.loc(f, sp))
        n += 1
    return n, f, cfg, ln, spawns


def rule_signal(ctx, rule='C10.SIGNAL'):
    f = ctx.func('bp', 'BlockProcessor.reorg_chain')
    cfg = ctx.cfg(f)
    bb = ctx.func('bp', 'BlockProcessor.backup_block')
    backs = [c for c in q.own_calls(f) if ctx.res.is_ext(c, f, 'run_in_thread') and c.args and
             ctx.res.resolve_ref(c.args[0], f) is not None and ctx.res.resolve_ref(c.args[0], f).key == bb.key]
    sets = [c for c in q.own_calls(f) if q.callee_name(ctx, f, c) == 'self.backed_up_event.set']
    n = 0
    if len(backs) != 1 or not sets:
        ctx.bad(rule, ctx.key(f, None, 'signal'), 'reorg_chain does not back blocks out in one place and signal backed_up_event',
                loc=ctx.loc(f, f.node))
        return 1
    exempt = set()
    bloops = [p for p, _f in q.enclosing_chain(q.stmt(backs[0]), f.node) if isinstance(p, ast.For)]
    for s in f.own_nodes():
        if isinstance(s, ast.If) and bloops and isinstance(s.test, ast.Compare) and isinstance(s.test.ops[0], ast.NotEq) and \
                {norm(s.test.left), norm(s.test.comparators[0])} == {norm(bloops[0].target), 'hash_to_hex_str(self.state.tip)'}:
            for r in s.body:
                if isinstance(r, ast.Return):
                    exempt.add(cfg.node(r))
    bn = cfg.node(q.stmt(backs[0]))
    sn = {cfg.node(q.stmt(c)) for c in sets}
    p = pr.path_avoiding(cfg, [bn], [cfg.exit], sn | exempt)
    ctx.check(p is None, rule, ctx.key(f, q.stmt(sets[0]), 'after every backup'),
              'once a block was backed out every (non-exempt) way out of reorg_chain signals backed_up_event afterwards',
              'a block can be backed out without backed_up_event being signalled afterwards: by-height caches keep the orphaned '
              'block\'s data', witness=cfg.describe_path(p) if p else None, loc=ctx.loc(f, sets[0]))
    n += 1
    if exempt:
        ctx.note(f'{rule}: exempt exit `if {EXEMPT_RETURN_TEST}: return` (cannot follow a completed backup in the same call)')
    # the handler
    h = ctx.func('sess', 'SessionManager._handle_chain_reorgs')
    hcfg = ctx.cfg(h)
    from ..suspend import Suspension
    sus = Suspension(ctx)
    loops = [s for s in h.node.body if isinstance(s, ast.While)]
    waits = [c for c in q.own_calls(h) if q.callee_name(ctx, h, c) == 'self.bp.backed_up_event.wait']
    if len(loops) != 1 or len(waits) != 1:
        ctx.bad(rule, ctx.key(h, None, 'handler loop'), 'the reorg handler does not wait for backed_up_event in a loop', loc=ctx.loc(h, h.node))
        return n + 1
    loop = loops[0]
    wn = hcfg.node(q.stmt(waits[0]))
    forever = isinstance(loop.test, ast.Constant) and bool(loop.test.value) and not any(isinstance(x, (ast.Break, ast.Return)) for x in walk_own(loop))
    ctx.check(forever, rule, ctx.key(h, loop, 'runs forever'), 'the handler loops for the life of the server',
              'the handler loop can end: later reorganisations are not handled', loc=ctx.loc(h, loop))
    n += 1
    parts = {
        'epoch': [s for s in walk_own(loop) if isinstance(s, ast.AugAssign) and ctx.res.canon(s.target, h) == 'self._reorg_count'
                  and isinstance(s.op, ast.Add)],
        'tx hashes cache': [q.stmt(c) for c in q.own_calls(h) if q.callee_name(ctx, h, c) == 'self._tx_hashes_cache.clear'],
        'merkle cache': [q.stmt(c) for c in q.own_calls(h) if q.callee_name(ctx, h, c) == 'self._merkle_cache.clear'],
    }
    for label, stmts in parts.items():
        ok = len(stmts) >= 1
        wit = None
        if ok:
            ok, wit = pr.once_per_iteration(hcfg, loop, [hcfg.node(s) for s in stmts])
            if ok:
                # after the wait, with no suspension in between
                between = []
                for s in stmts:
                    sn_ = hcfg.node(s)
                    reach = hcfg.reachable_from(wn, avoiding={sn_})
                    for x in reach:
                        a = hcfg.ast(x)
                        if a is not None and hcfg.find_path([x], {sn_}, avoiding={wn}) is not None and x != sn_:
                            r = sus.stmt_suspends(a, h)
                            if r:
                                between.append(f'{hcfg.label(x)}: {r}')
                if between:
                    ok, wit = False, between
        ctx.check(ok, rule, ctx.key(h, loop, label),
                  f'after each signal the handler resets the {label} once, with no suspension after the wake-up',
                  f'the handler does not reset the {label} on every signal before it can suspend again: stale by-height data '
                  'of the orphaned block stays cached', witness=wit, loc=ctx.loc(h, loop))
        n += 1
    return n


def rule_byheight_fields(ctx, rule='C10.BYHEIGHTCLEAR'):
    """Every container of the session manager that is filled under a key derived from a block height holds data of *the
    block that was at that height*: the reorg handler must empty it (heights are re-used by the replacing blocks).  The
    fields are discovered, not listed: a container created in __init__ (lrucache / dict / defaultdict) that some method
    stores into under a key mentioning a height."""
    rel = ctx.repo.path('sess')
    meths = [f for f in ctx.repo.funcs.values() if f.unit.relpath == rel and f.cls == 'SessionManager']
    init = ctx.func('sess', 'SessionManager.__init__')
    h = ctx.func('sess', 'SessionManager._handle_chain_reorgs')
    containers = {}
    for s_ in init.own_nodes():
        if isinstance(s_, ast.Assign) and len(s_.targets) == 1 and isinstance(s_.targets[0], ast.Attribute) \
                and isinstance(s_.targets[0].value, ast.Name) and s_.targets[0].value.id == 'self':
            v = s_.value
            kind = None
            if isinstance(v, ast.Dict) and not v.keys:
                kind = 'dict'
            elif isinstance(v, ast.Call) and norm(v.func).split('.')[-1] in ('lrucache', 'dict', 'defaultdict', 'OrderedDict', 'LRUCache'):
                kind = norm(v.func)
            if kind:
                containers['self.' + s_.targets[0].attr] = kind
    cleared = set()
    for c in q.own_calls(h):
        if isinstance(c.func, ast.Attribute) and c.func.attr == 'clear':
            cleared.add(ctx.res.canon(c.func.value, h))
    for s_ in h.own_nodes():
        if isinstance(s_, ast.Assign):
            for t in s_.targets:
                if isinstance(t, ast.Attribute):
                    cleared.add(ctx.res.canon(t, h))
    n = 0
    for fld, kind in sorted(containers.items()):
        keyed = []
        for f in meths:
            for s_ in f.own_nodes():
                tgts = s_.targets if isinstance(s_, ast.Assign) else []
                for t in tgts:
                    if isinstance(t, ast.Subscript) and ctx.res.canon(t.value, f) == fld:
                        names = {x.id for x in ast.walk(t.slice) if isinstance(x, ast.Name)} | {x.attr for x in ast.walk(t.slice) if isinstance(x, ast.Attribute)}
                        if any('height' in nm.lower() for nm in names):
                            keyed.append(f'{f.qual}: {norm(s_)[:60]}')
        if not keyed:
            continue
        n += 1
        ctx.check(fld in cleared, rule, ctx.key(h, None, f'{fld} emptied on reorg'),
                  f'{fld} (filled by height) is emptied by the reorg handler',
                  f'{fld} is filled under a block height ({keyed[0]}) but the reorg handler does not empty it: after a reorganisation '
                  'it answers with the data of the orphaned block at that height', loc=ctx.loc(h, h.node))
    return n


def rule_byheight(ctx, rule='C10.BYHEIGHT'):
    '''fs_tx_hashes_at_blockheight refuses heights above the flushed height (files and tx_counts run ahead of it).'''
    f = ctx.func('db', 'DB.fs_tx_hashes_at_blockheight')
    cfg = ctx.cfg(f)
    p = f.params[1]
    guards = []
    for s in f.node.body:
        if isinstance(s, ast.If) and any(isinstance(x, ast.Raise) for x in s.body):
            cn = q.comparison_normal(ctx, f, s.test)
            if cn is not None and cn[1] == '>' and q.lin_eq(cn[0], {p: 1, 'self.state.height': -1, '': 0}):
                guards.append(s)
    reads = [c for c in q.own_calls(f) if isinstance(c.func, ast.Attribute) and c.func.attr == 'read']
    ok = len(guards) >= 1 and bool(reads) and all(cfg.dominates(cfg.node(guards[0]), cfg.node(q.stmt(r))) for r in reads)
    ctx.check(ok, rule, ctx.key(f, None, 'height bound'),
              'a by-height read raises for heights above the flushed state height before touching the files',
              'by-height reads are not refused above the flushed state height: hashes left over from an orphaned or unflushed '
              'block are served (and then cached by height)', loc=ctx.loc(f, f.node))
    g = ctx.func('db', 'DB.read_headers')
    inners = [x for x in g.nested.values() if any(isinstance(c, ast.Call) and q.callee_name(ctx, x, c) == 'self.headers_file.read' for c in x.own_nodes())]
    inner = inners[0] if len(inners) == 1 else None
    ok2 = False
    if inner is not None:
        # every read on every return path: its size is 80 * max(0, min(count, state.height + 1 - start))
        from .. import paths as P
        want = f'max(0, min({g.params[2]}, self.state.height + 1 - {g.params[1]}))'
        sizes = [norm(c.args[1]) for pth in P.returns(inner.node) for c in ast.walk(pth.value)
                 if isinstance(c, ast.Call) and norm(c.func) == 'self.headers_file.read' and len(c.args) == 2]
        ok2 = bool(sizes) and all(sz in (f'{want} * 80', f'80 * {want}') for sz in sizes)
    ctx.check(ok2, rule, ctx.key(g, None, 'header count bound'),
              'header reads are bounded by the flushed state height', 'header reads are not bounded by state.height + 1 - start',
              loc=ctx.loc(g, g.node))
    return 2


def run(ctx):
    fr = Fresh(ctx, EPOCHS)
    got = ctx.rule('C10.INVALIDATE', lambda: rule_invalidate(ctx))
    ns = ctx.func('sess', 'SessionManager._notify_sessions')
    if isinstance(got, tuple):
        n, f, cfg, ln, spawns = got
        ctx.floor('C10.INVALIDATE', 3, n)
        ctx.rule('C10.EPOCH', lambda: rule_epoch_bumped(ctx, f, 'self._touched_count', 'C10.EPOCH',
                                                        must_precede=[cfg.node(q.stmt(s)) for s in spawns] + [cfg.exit]), 1)
    ctx.rule('C10.FILL', lambda: rule_fill(ctx, fr, ctx.func('sess', 'SessionManager.limited_history'), 'self._history_cache', 'C10.FILL')
             + rule_fill(ctx, fr, ctx.func('sess', 'SessionManager.tx_hashes_at_blockheight'), 'self._tx_hashes_cache', 'C10.FILL'), 2)
    ctx.rule('C10.SIGNAL', lambda: rule_signal(ctx), 5)
    from . import c03 as _c03
    ctx.rule('C10.MEMO', lambda: _c03.rule_memo(ctx, 'C10.MEMO'), 12)
    ctx.rule('C10.BYHEIGHT', lambda: rule_byheight(ctx), 2)
    ctx.rule('C10.BYHEIGHTCLEAR', lambda: rule_byheight_fields(ctx), 2)
    from . import c11 as _c11h, c09 as _c09h
    ctx.rule('C10.HEADERSRC', lambda: _c11h.rule_header_source(ctx, 'C10.HEADERSRC'), 1)
    ctx.rule('C10.HANDOVER', lambda: _c09h.rule_refresh_handover(ctx, 'C10.HANDOVER'), 3)
    from . import c12 as _c12, c08 as _c08
    ctx.rule('C10.OWNCOPY', lambda: _c12.rule_own_copy(ctx, 'C10.OWNCOPY'), 1)
    ctx.rule('C10.LIVEFLAG', lambda: _c08.rule_liveflag(ctx), 2)
    ctx.rule('C10.MERGE', lambda: _c08.rule_merge(ctx) + _c08.rule_fixpoint(ctx, 'C10.FIXPOINT'), 4)
    # id-from-position with merkle=True answers from the by-height caches: their fills must be fresh too
    from . import c11
    ctx.rule('C10.CACHES', lambda: c11.rule_cachefill(ctx, 'C10.CACHES'), 4)
    from . import c03
    ctx.rule('C10.TOUCHED', lambda: c03.rule_touched(ctx, 'C10.TOUCHED'), 4)
    # the history cache is invalidated by the touched sets only: the chain that carries them from the block processor and the
    # mempool to _notify_sessions (report after flush with the set reset by rebinding, hand-over, the Notifications join) is
    # as much a condition of "never stale" as the eviction itself
    from . import c07 as _c07, c20 as _c20
    ctx.rule('C07.FLUSHNOTIFY', lambda: _c07.rule_flushnotify(ctx), 4)
    ctx.rule('C07.HANDOVER', lambda: _c07.rule_mempool_handover(ctx), 4)
    ctx.rule('C20', lambda: _c20._run(ctx))
    # mempool answers at quiescence: every refresh re-processes (a tx left out by a transient fault is retried)
    from . import c09 as _c09e
    ctx.rule('C09.EVERYREFRESH', lambda: _c09e.rule_everyrefresh(ctx), 1)
