'''C14 - history compaction never changes any script hash's history.

Decided: BATCH (each compaction pass is one batch: deletes, then puts, then the state record), STATE (progress fields
assigned before the batch that persists them; final pass hands flush_count := comp_flush_count), CANCEL (every
non-compacting open cancels an unfinished compaction after reading the state; only the tool opens with compacting),
HANDOVER (the tool loops until the cursor is -1, then copies the history flush count to the UTXO DB), ROWKEYS (compacted
rows keyed hashX + be16(enumeration index); comp_flush_count = max over all script hashes, updated on every path),
GROUPING (rows grouped per script hash in key order; non-history keys skipped; prefixes walked in order).
Not decided: history equality for all databases and interruption points.
'''
import ast

from ..model import AnalysisError, norm, walk_own, const_value
from ..effects import InlineGraph, key_provenance
from .. import q, pathrules as pr, dataflow as df

EXPLANATION = ('static necessary conditions of C14 on History._flush_compaction/_compact_* and electrumx_compact_history: one batch '
               'per pass with delete-before-put and the state record, state fields set before persisting, cancellation on every '
               'non-compacting open, tool hand-over sequence, big-endian enumeration row keys, unconditional max of comp_flush_count, '
               'per-hashX grouping. Does NOT decide history equality for all databases.')
ASSUMPTIONS = ['a write batch is atomic; within one batch a later put wins over an earlier delete of the same key']


def run(ctx):
    ctx.rule('C14.BATCH', lambda: rule_batch(ctx), 4)
    ctx.rule('C14.STATE', lambda: rule_state(ctx), 3)
    ctx.rule('C14.CANCEL', lambda: rule_cancel(ctx), 6)
    ctx.rule('C14.HANDOVER', lambda: rule_handover(ctx), 4)
    ctx.rule('C14.ROWKEYS', lambda: rule_rowkeys(ctx), 4)
    ctx.rule('C14.GROUPING', lambda: rule_grouping(ctx), 4)


def rule_batch(ctx):
    f = ctx.func('hist', 'History._flush_compaction')
    ig = InlineGraph(ctx, f, max_depth=2)
    opens = ig.of('BATCH_OPEN', 'HIST')
    dels, puts = ig.of('DELETE', 'HIST'), ig.of('PUT', 'HIST')
    sput = [e for e in puts if key_provenance(ctx, e)[0] == 'STATE']
    rows = [e for e in puts if e not in sput]
    n = 0
    ctx.check(len(opens) == 1 and not ig.of(('DIRECT_PUT', 'DIRECT_DELETE'), 'HIST'), 'C14.BATCH', ctx.key(f, None, 'one batch'),
              'a compaction pass opens exactly one history batch and writes nothing outside it',
              f'a compaction pass uses {len(opens)} batches (or direct writes): a kill between them loses the rows deleted by the first',
              loc=ctx.loc(f, f.node))
    n += 1
    same = opens and all(e.batch is opens[0].batch for e in dels + puts)
    ctx.check(bool(dels) and bool(rows) and len(sput) == 1 and bool(same), 'C14.BATCH', ctx.key(f, None, 'deletes, puts and state together'),
              'row deletes, row puts and the state record share the batch',
              'row deletes, row puts and the state record are not all in the same batch', loc=ctx.loc(f, f.node))
    n += 1
    # deletes precede puts (key sets overlap)
    back = None
    for p in rows:
        for dl in dels:
            back = back or ig.find_path([p.gnode], [dl.gnode])
    ctx.check(back is None, 'C14.BATCH', ctx.key(f, None, 'delete before put'),
              'all deletes are issued before any put (rewritten keys are in both sets)',
              'a put can precede a delete of the same key set: rewritten rows are deleted', witness=ig.describe(back) if back else None,
              loc=ctx.loc(f, f.node))
    n += 1
    # every delete key / write item handed in is applied
    loops = [s for s in walk_own(f.node) if isinstance(s, ast.For)]
    iters = sorted(norm(l.iter) for l in loops)
    ctx.check(iters == sorted([f.params[2], f.params[3]]) and all(not any(isinstance(x, (ast.If, ast.Break, ast.Continue)) for x in walk_own(l)) for l in loops),
              'C14.BATCH', ctx.key(f, None, 'applies everything'),
              'every key to delete and every item to write is applied, unfiltered',
              f'the pass does not apply all handed-in deletes and writes (loops over {iters})', loc=ctx.loc(f, f.node))
    return n + 1


def rule_state(ctx):
    f = ctx.func('hist', 'History._flush_compaction')
    cfg = ctx.cfg(f)
    cur = f.params[1]
    withs = [s for s in f.node.body if isinstance(s, ast.With)]
    if len(withs) < 1:
        raise AnalysisError(f'{f.key}: batch not found')
    wn = cfg.node(withs[0])
    n = 0
    fields = ('self.comp_cursor', 'self.flush_count', 'self.comp_flush_count')
    late = []
    for fld in fields:
        for s in q.assigns(ctx, f, fld):
            if cfg.find_path([wn], {cfg.node(s)}) is not None:
                late.append(norm(s))
    ctx.check(not late, 'C14.STATE', ctx.key(f, None, 'before the batch'),
              'progress fields are assigned before the batch that persists them',
              f'progress fields assigned after the batch was opened: {late} (the persisted state lags the rows)', loc=ctx.loc(f, f.node))
    n += 1
    ifs = [s for s in f.node.body if isinstance(s, ast.If)]
    ok = False
    if len(ifs) == 1:
        t = ifs[0].test
        fin = isinstance(t, ast.Compare) and isinstance(t.ops[0], ast.Eq) and norm(t.left) == cur and const_value(t.comparators[0]) == 65536
        body = {norm(s.targets[0]): norm(s.value) for s in ifs[0].body if isinstance(s, ast.Assign)}
        els = {norm(s.targets[0]): norm(s.value) for s in ifs[0].orelse if isinstance(s, ast.Assign)}
        order_ok = False
        if fin:
            seq = [norm(s.targets[0]) for s in ifs[0].body if isinstance(s, ast.Assign)]
            order_ok = 'self.flush_count' in seq and 'self.comp_flush_count' in seq and seq.index('self.flush_count') < seq.index('self.comp_flush_count')
        ok = fin and body == {'self.flush_count': 'self.comp_flush_count', 'self.comp_cursor': '-1', 'self.comp_flush_count': '-1'} \
            and els == {'self.comp_cursor': cur} and order_ok
    ctx.check(ok, 'C14.STATE', ctx.key(f, None, 'final pass'),
              'the final pass (cursor 65536) sets flush_count := comp_flush_count, then clears cursor and comp_flush_count; other passes store the cursor',
              'the final/intermediate pass bookkeeping is not as required (flush_count must take comp_flush_count before it is cleared)',
              loc=ctx.loc(f, f.node))
    n += 1
    g = ctx.func('hist', 'History._compact_history')
    cs = q.calls_resolving_to(ctx, g, f)
    d = df.defs(g)
    curdefs = [rhs for st, rhs in d.get('cursor', []) if isinstance(st, ast.Assign)]
    okc = len(cs) == 1 and [norm(a) for a in cs[0].args] == ['cursor', 'write_items', 'keys_to_delete'] and \
        len(curdefs) == 1 and ctx.res.canon(curdefs[0], g) == 'self.comp_cursor'
    wl = [s for s in g.node.body if isinstance(s, ast.While)]
    okw = False
    if len(wl) == 1:
        conj = {norm(x) for x in pr.conjuncts(wl[0].test)}
        incs = [s for s in wl[0].body if isinstance(s, ast.AugAssign) and norm(s.target) == 'cursor' and const_value(s.value) == 1]
        pre = [s for s in wl[0].body if isinstance(s, ast.Assign) and norm(s.value) == 'pack_be_uint16(cursor)']
        okw = any(q.cmp_matches(ctx, g, x, 'cursor < 65536') for x in pr.conjuncts(wl[0].test)) and len(incs) == 1 and len(pre) == 1 and pre[0].lineno < incs[0].lineno
    ctx.check(okc and okw, 'C14.STATE', ctx.key(g, None, 'cursor walk'),
              'a pass starts at comp_cursor, walks big-endian 2-byte prefixes upwards one by one (below 65536) and persists where it stopped',
              'the prefix walk does not start at comp_cursor / advance by one be16 prefix / persist the reached cursor', loc=ctx.loc(g, g.node))
    return n + 1


def rule_cancel(ctx):
    n = 0
    od = ctx.func('hist', 'History.open_db')
    cfg = ctx.cfg(od)
    cc = ctx.func('hist', 'History._cancel_compaction')
    cs = q.calls_resolving_to(ctx, od, cc)
    rs = q.calls_resolving_to(ctx, od, ctx.func('hist', 'History.read_state'))
    ok = len(cs) == 1 and len(rs) == 1
    if ok:
        conds = pr.control_conditions(q.stmt(cs[0]), od.node)
        ok = len(conds) == 1 and conds[0][1] and norm(conds[0][0]) == f'not {od.params[4]}'
        ok = ok and pr.path_avoiding(cfg, [cfg.entry], [cfg.node(q.stmt(cs[0]))], {cfg.node(q.stmt(rs[0]))}) is None
    ctx.check(ok, 'C14.CANCEL', ctx.key(od, None, 'cancel unless compacting'),
              'after reading the state, open_db cancels an unfinished compaction exactly when not opened for compacting',
              'open_db does not cancel an unfinished compaction exactly under `not compacting` after read_state', loc=ctx.loc(od, od.node))
    n += 1
    body_ok = False
    ifs = [s for s in cc.node.body if isinstance(s, ast.If)]
    if len(ifs) == 1:
        t = ifs[0].test
        cond = isinstance(t, ast.Compare) and isinstance(t.ops[0], ast.NotEq) and norm(t.left) == 'self.comp_cursor' and const_value(t.comparators[0]) == -1
        sets = {norm(s.targets[0]): norm(s.value) for s in ifs[0].body if isinstance(s, ast.Assign)}
        body_ok = cond and sets == {'self.comp_flush_count': '-1', 'self.comp_cursor': '-1'}
    ctx.check(body_ok, 'C14.CANCEL', ctx.key(cc, None, 'resets progress'),
              'cancelling resets comp_cursor and comp_flush_count to -1', 'cancelling does not reset both progress fields to -1',
              loc=ctx.loc(cc, cc.node))
    n += 1
    ob = ctx.func('db', 'DB._open_dbs')
    hs = q.calls_resolving_to(ctx, ob, od)
    okp = len(hs) == 1 and len(hs[0].args) == 4 and norm(hs[0].args[3]) == ob.params[2] and norm(hs[0].args[1]) == ob.params[1]
    ctx.check(okp, 'C14.CANCEL', ctx.key(ob, None, 'passes compacting through'),
              '_open_dbs passes its compacting flag to History.open_db', '_open_dbs does not pass its compacting flag through',
              loc=ctx.loc(ob, ob.node))
    n += 1
    for qual, want in (('DB.open_for_sync', 'False'), ('DB.open_for_serving', 'False'), ('DB.open_for_compacting', 'True')):
        g = ctx.func('db', qual)
        cs = q.calls_resolving_to(ctx, g, ob)
        okf = len(cs) >= 1 and all(len(c.args) == 2 and norm(c.args[1]) == want for c in cs)
        ctx.check(okf, 'C14.CANCEL', ctx.key(g, None, 'compacting flag'),
                  f'{qual} opens with compacting={want}',
                  f'{qual} does not open with compacting={want}: ' + ('an abandoned compaction is resumed later on top of rows indexed meanwhile'
                                                                       if want == 'False' else 'the tool would cancel its own progress'),
                  loc=ctx.loc(g, g.node))
        n += 1
    return n


def rule_handover(ctx):
    f = ctx.func('compact', 'compact_history')
    cfg = ctx.cfg(f)
    n = 0
    opens = [c for c in q.own_calls(f) if q.callee_name(ctx, f, c).endswith('.open_for_compacting')]
    loops = [s for s in f.node.body if isinstance(s, ast.While)]
    sfc = [c for c in q.own_calls(f) if q.callee_name(ctx, f, c).endswith('.set_flush_count')]
    ok = len(opens) == 1 and len(loops) == 1 and len(sfc) == 1
    if ok:
        lp = loops[0]
        t = lp.test
        okl = isinstance(t, ast.Compare) and isinstance(t.ops[0], ast.NotEq) and norm(t.left).endswith('.comp_cursor') and const_value(t.comparators[0]) == -1
        body = [c for c in walk_own(lp) if isinstance(c, ast.Call) and norm(c.func).endswith('._compact_history')]
        okl = okl and len(body) == 1 and not any(isinstance(x, (ast.Break, ast.Return)) for x in walk_own(lp))
        order = q.stmt(opens[0]).lineno < lp.lineno < q.stmt(sfc[0]).lineno
        arg = norm(sfc[0].args[0]).endswith('.flush_count') and not norm(sfc[0].args[0]).endswith('comp_flush_count')
        ok = okl and order and arg and pr.path_avoiding(cfg, [cfg.entry], [cfg.exit], {cfg.node(q.stmt(sfc[0]))}) is None
    ctx.check(ok, 'C14.HANDOVER', ctx.key(f, None, 'sequence'),
              'the tool opens for compacting, loops until comp_cursor == -1, then copies history.flush_count to the UTXO DB',
              'the tool does not follow open_for_compacting -> loop until comp_cursor == -1 -> set_flush_count(history.flush_count)',
              loc=ctx.loc(f, f.node))
    n += 1
    starts = [s for s in f.node.body if isinstance(s, ast.If) and 'comp_cursor == -1' in norm(s.test)]
    oks = len(starts) == 1 and [norm(x) for x in starts[0].body] == [norm(starts[0].test.left) + ' = 0']
    ctx.check(oks, 'C14.HANDOVER', ctx.key(f, None, 'start or resume'),
              'a fresh compaction starts at cursor 0; an interrupted one resumes where it stopped',
              'the tool does not start at 0 only when no compaction is in progress', loc=ctx.loc(f, f.node))
    n += 1
    mx = [s for s in f.node.body if isinstance(s, ast.Assign) and norm(s.targets[0]).endswith('.comp_flush_count')]
    okm = len(mx) == 1 and isinstance(mx[0].value, ast.Call) and norm(mx[0].value.func) == 'max' and \
        norm(mx[0].targets[0]) in [norm(a) for a in mx[0].value.args]
    ctx.check(okm, 'C14.HANDOVER', ctx.key(f, None, 'comp_flush_count only grows'),
              'comp_flush_count is only raised, never lowered, when (re)starting', 'comp_flush_count can be lowered on (re)start',
              loc=ctx.loc(f, f.node))
    n += 1
    sf = ctx.func('db', 'DB.set_flush_count')
    a = q.assigns(ctx, sf, 'self.state.flush_count')
    w = q.calls_resolving_to(ctx, sf, ctx.func('db', 'DB.write_utxo_state'))
    okf = len(a) == 1 and norm(a[0].value) == sf.params[1] and len(w) == 1 and a[0].lineno < q.stmt(w[0]).lineno \
        and norm(w[0].args[0]) == 'self.utxo_db'
    ctx.check(okf, 'C14.HANDOVER', ctx.key(sf, None, 'persists the count'),
              'set_flush_count stores the count in the state and writes the UTXO state record',
              'set_flush_count does not persist the count in the UTXO state record', loc=ctx.loc(sf, sf.node))
    return n + 1


def rule_rowkeys(ctx):
    f = ctx.func('hist', 'History._compact_hashX')
    cfg = ctx.cfg(f)
    n = 0
    loops = [s for s in f.node.body if isinstance(s, ast.For)]
    ok, why = False, 'chunk loop not found'
    if len(loops) == 1 and isinstance(loops[0].iter, ast.Call) and norm(loops[0].iter.func) == 'enumerate' \
            and isinstance(loops[0].target, ast.Tuple):
        lp = loops[0]
        nv, cv = [norm(e) for e in lp.target.elts]
        inner = lp.iter.args[0]
        start0 = not lp.iter.keywords and len(lp.iter.args) == 1
        chunks_ok = isinstance(inner, ast.Call) and q.callee_name(ctx, f, inner).endswith('chunks') and norm(inner.args[0]) == 'full_hist' \
            and norm(inner.args[1]) == 'max_row_size'
        keys = [s for s in lp.body if isinstance(s, ast.Assign) and norm(s.value) == f'{f.params[1]} + pack_be_uint16({nv})']
        ok = start0 and chunks_ok and len(keys) == 1
        why = f'enumerate from 0 ok={start0}, fixed-size chunks of the joined history ok={chunks_ok}, key = hashX + be16(n) ok={len(keys) == 1}'
    ctx.check(ok, 'C14.ROWKEYS', ctx.key(f, None, 'row keys'),
              'compacted rows are the fixed-size chunks of the joined history, keyed hashX + big-endian enumeration index from 0',
              'compacted rows are not keyed hashX + be16(index from 0) over fixed-size chunks: ' + why, loc=ctx.loc(f, f.node))
    n += 1
    d = df.defs(f)
    fh = [rhs for st, rhs in d.get('full_hist', [])]
    mr = [rhs for st, rhs in d.get('max_row_size', [])]
    okj = len(fh) == 1 and norm(fh[0]) == f"b''.join({f.params[3]})" and len(mr) == 1 and norm(mr[0]) in ('self.max_hist_row_entries * 5', '5 * self.max_hist_row_entries')
    ctx.check(okj, 'C14.ROWKEYS', ctx.key(f, None, 'joined in order, 5-byte entries'),
              'the history is the in-order join of the rows; a row holds max_hist_row_entries 5-byte entries',
              'the joined history / row size is not (join of hist_list in order, max_hist_row_entries * 5)', loc=ctx.loc(f, f.node))
    n += 1
    mx = [s for s in q.assigns(ctx, f, 'self.comp_flush_count')]
    okm = len(mx) == 1 and isinstance(mx[0].value, ast.Call) and norm(mx[0].value.func) == 'max' and \
        sorted(norm(a) for a in mx[0].value.args) == sorted(['self.comp_flush_count', nv if ok else 'n'])
    p = pr.path_avoiding(cfg, [cfg.entry], [cfg.exit], {cfg.node(mx[0])}) if len(mx) == 1 else [cfg.entry]
    ctx.check(okm and p is None, 'C14.ROWKEYS', ctx.key(f, None, 'largest row number recorded'),
              'comp_flush_count = max(comp_flush_count, last row index) on every path of every script hash',
              'comp_flush_count is not raised to the last row index on every path: after the compaction flush_count can end below an '
              'existing row number and the next history flush overwrites that row', witness=cfg.describe_path(p) if p else None,
              loc=ctx.loc(f, f.node))
    n += 1
    # keep/rewrite decision
    okd = False
    if ok:
        ifs = [s for s in lp.body if isinstance(s, ast.If)]
        if len(ifs) == 1:
            t = norm(ifs[0].test)
            body = [norm(x) for x in ifs[0].body]
            els = [norm(x) for x in ifs[0].orelse if not isinstance(x, ast.AugAssign)]
            okd = t == f'{f.params[2]}.get(key) == {cv}' and body == [f'{f.params[5]}.remove(key)'] and els == [f'{f.params[4]}.append((key, {cv}))']
        upd = [c for c in q.own_calls(f) if norm(c.func) == f'{f.params[5]}.update' and norm(c.args[0]) == f.params[2]]
        okd = okd and len(upd) == 1 and q.stmt(upd[0]).lineno < lp.lineno
    ctx.check(okd, 'C14.ROWKEYS', ctx.key(f, None, 'delete all, keep identical'),
              'all old rows are marked for deletion; a new row identical to the stored one is un-marked, any other is written',
              'the delete / keep / write decision per row is not as required', loc=ctx.loc(f, f.node))
    return n + 1


def rule_grouping(ctx):
    f = ctx.func('hist', 'History._compact_prefix')
    n = 0
    loops = [s for s in f.node.body if isinstance(s, ast.For)]
    ch = ctx.func('hist', 'History._compact_hashX')
    ok = False
    if len(loops) == 1 and isinstance(loops[0].iter, ast.Call) and norm(loops[0].iter.func) == 'self.db.iterator':
        lp = loops[0]
        kws = {k.arg: norm(k.value) for k in lp.iter.keywords}
        keyv, hv = [norm(e) for e in lp.target.elts]
        skip = lp.body[0]
        skip_ok = isinstance(skip, ast.If) and norm(skip.test) == f'len({keyv}) != key_len' and isinstance(skip.body[0], ast.Continue)
        kl = [rhs for st, rhs in df.defs(f).get('key_len', [])]
        kl_ok = len(kl) == 1 and norm(kl[0]) in ('HASHX_LEN + 2', '2 + HASHX_LEN')
        hx = [s for s in lp.body if isinstance(s, ast.Assign) and norm(s.value) == f'{keyv}[:-2]']
        ok = kws == {'prefix': f.params[1]} and skip_ok and kl_ok and len(hx) == 1
    ctx.check(ok, 'C14.GROUPING', ctx.key(f, None, 'rows of one prefix'),
              'all rows under the prefix are visited in key order; non-history keys (length != HASHX_LEN + 2) are skipped; hashX = key[:-2]',
              'rows are not grouped by key[:-2] over the prefix iterator with non-history keys skipped', loc=ctx.loc(f, f.node))
    n += 1
    calls = q.calls_resolving_to(ctx, f, ch)
    okc = len(calls) == 2 and all(norm(c.args[0]) == 'prior_hashX' and [norm(a) for a in c.args[1:]] == ['hist_map', 'hist_list', f.params[2], f.params[3]] for c in calls)
    ctx.check(okc, 'C14.GROUPING', ctx.key(f, None, 'each group compacted'),
              'each completed group, and the last one, is compacted with its own rows', 'groups are not each compacted with their own rows',
              loc=ctx.loc(f, f.node))
    n += 1
    if len(loops) == 1:
        lp = loops[0]
        fills = [norm(x) for x in lp.body[-3:]]
        okf = fills == ['prior_hashX = hashX', f'hist_map[{keyv}] = {hv}', f'hist_list.append({hv})']
        clears = [norm(c) for c in walk_own(lp) if isinstance(c, ast.Call) and isinstance(c.func, ast.Attribute) and c.func.attr == 'clear']
        okf = okf and sorted(clears) == ['hist_list.clear()', 'hist_map.clear()']
        ctx.check(okf, 'C14.GROUPING', ctx.key(f, lp, 'group accumulation'),
                  'rows accumulate per script hash (map and ordered list) and are reset when the script hash changes',
                  'per-script-hash accumulation / reset is not as required', loc=ctx.loc(f, lp))
        n += 1
    g = ctx.func('hist', 'History._compact_history')
    cs = q.calls_resolving_to(ctx, g, f)
    okp = len(cs) == 1 and [norm(a) for a in cs[0].args] == ['prefix', 'write_items', 'keys_to_delete']
    ctx.check(okp, 'C14.GROUPING', ctx.key(g, None, 'prefix compaction'),
              'each prefix of the walk is compacted into the shared write / delete sets', 'prefixes are not compacted into the pass\'s sets',
              loc=ctx.loc(g, g.node))
    return n + 1
