'''C14 - history compaction never changes any script hash's history.

Decided: BATCH (each compaction pass is one batch: deletes, then puts, then the state record), STATE (progress fields
assigned before the batch that persists them; final pass hands flush_count := comp_flush_count), CANCEL (every
non-compacting open cancels an unfinished compaction after reading the state; only the tool opens with compacting),
HANDOVER (the tool loops until the cursor is -1, then copies the history flush count to the UTXO DB), ROWKEYS (compacted
rows keyed hashX + be16(enumeration index); comp_flush_count = max over all script hashes, updated on every path),
GROUPING (rows grouped per script hash in key order; non-history keys skipped; prefixes walked in order).
Not decided: history equality for all databases and interruption points.
'''
import ast

from ..model import AnalysisError, norm, walk_own, const_value
from ..effects import InlineGraph, key_provenance
from .. import q, pathrules as pr, dataflow as df

EXPLANATION = ('static necessary conditions of C14 on History._flush_compaction/_compact_* and electrumx_compact_history: one batch '
               'per pass with delete-before-put and the state record, state fields set before persisting, cancellation on every '
               'non-compacting open, tool hand-over sequence, big-endian enumeration row keys, unconditional max of comp_flush_count, '
               'per-hashX grouping. Does NOT decide history equality for all databases.')
ASSUMPTIONS = ['a write batch is atomic; within one batch a later put wins over an earlier delete of the same key']


def run(ctx):
    ctx.rule('C14.BATCH', lambda: rule_batch(ctx), 4)
    ctx.rule('C14.STATE', lambda: rule_state(ctx), 3)
    ctx.rule('C14.CANCEL', lambda: rule_cancel(ctx), 6)
    ctx.rule('C14.HANDOVER', lambda: rule_handover(ctx), 4)
    ctx.rule('C14.ROWKEYS', lambda: rule_rowkeys(ctx), 3)
    ctx.rule('C14.GROUPING', lambda: rule_grouping(ctx), 3)
    from . import c04 as _c04, c03 as _c03
    ctx.rule('C14.SCRUB', lambda: _c04.rule_scrub(ctx, 'C14'), 6)
    ctx.rule('C14.TRUNC', lambda: _c03.rule_trunc(ctx), 3)
    ctx.rule('C14.STORAGE', lambda: _c04.rule_storage_batch(ctx, 'C14'), 2)


def rule_batch(ctx):
    f = ctx.func('hist', 'History._flush_compaction')
    ig = InlineGraph(ctx, f, max_depth=2)
    opens = ig.of('BATCH_OPEN', 'HIST')
    dels, puts = ig.of('DELETE', 'HIST'), ig.of('PUT', 'HIST')
    sput = [e for e in puts if key_provenance(ctx, e)[0] == 'STATE']
    rows = [e for e in puts if e not in sput]
    n = 0
    ctx.check(len(opens) == 1 and not ig.of(('DIRECT_PUT', 'DIRECT_DELETE'), 'HIST'), 'C14.BATCH', ctx.key(f, None, 'one batch'),
              'a compaction pass opens exactly one history batch and writes nothing outside it',
              f'a compaction pass uses {len(opens)} batches (or direct writes): a kill between them loses the rows deleted by the first',
              loc=ctx.loc(f, f.node))
    n += 1
    same = opens and all(e.batch is opens[0].batch for e in dels + puts)
    ctx.check(bool(dels) and bool(rows) and len(sput) == 1 and bool(same), 'C14.BATCH', ctx.key(f, None, 'deletes, puts and state together'),
              'row deletes, row puts and the state record share the batch',
              'row deletes, row puts and the state record are not all in the same batch', loc=ctx.loc(f, f.node))
    n += 1
    # deletes precede puts (key sets overlap)
    back = None
    for p in rows:
        for dl in dels:
            back = back or ig.find_path([p.gnode], [dl.gnode])
    ctx.check(back is None, 'C14.BATCH', ctx.key(f, None, 'delete before put'),
              'all deletes are issued before any put (rewritten keys are in both sets)',
              'a put can precede a delete of the same key set: rewritten rows are deleted', witness=ig.describe(back) if back else None,
              loc=ctx.loc(f, f.node))
    n += 1
    # every delete key / write item handed in is applied
    loops = [s for s in walk_own(f.node) if isinstance(s, ast.For)]
    iters = sorted(norm(l.iter) for l in loops)
    ctx.check(iters == sorted([f.params[2], f.params[3]]) and all(not any(isinstance(x, (ast.If, ast.Break, ast.Continue)) for x in walk_own(l)) for l in loops),
              'C14.BATCH', ctx.key(f, None, 'applies everything'),
              'every key to delete and every item to write is applied, unfiltered',
              f'the pass does not apply all handed-in deletes and writes (loops over {iters})', loc=ctx.loc(f, f.node))
    return n + 1


def rule_state(ctx):
    f = ctx.func('hist', 'History._flush_compaction')
    cfg = ctx.cfg(f)
    cur = f.params[1]
    withs = [s for s in f.node.body if isinstance(s, ast.With)]
    if len(withs) < 1:
        raise AnalysisError(f'{f.key}: batch not found')
    wn = cfg.node(withs[0])
    n = 0
    fields = ('self.comp_cursor', 'self.flush_count', 'self.comp_flush_count')
    late = []
    for fld in fields:
        for s in q.assigns(ctx, f, fld):
            if cfg.find_path([wn], {cfg.node(s)}) is not None:
                late.append(norm(s))
    ctx.check(not late, 'C14.STATE', ctx.key(f, None, 'before the batch'),
              'progress fields are assigned before the batch that persists them',
              f'progress fields assigned after the batch was opened: {late} (the persisted state lags the rows)', loc=ctx.loc(f, f.node))
    n += 1
    # per path: cursor == 65536 decides; the final pass hands flush_count := comp_flush_count and then clears the two progress
    # fields, every other pass stores the cursor and nothing else
    from .. import paths as P
    ps = [p_ for p_ in P.paths(f.node.body) if p_.exit in ('fall', 'return')]
    ok = len(ps) >= 2
    for p_ in ps:
        fin = P.decided(ctx, f, p_, f'{cur} == 65536')
        seq = [(norm(st_.targets[0]), norm(P.subst(st_.value, env_))) for st_, env_ in p_.events
               if isinstance(st_, ast.Assign) and len(st_.targets) == 1 and norm(st_.targets[0]) in fields]
        if fin is None:
            ok = False
        elif fin:
            ok = ok and sorted(seq) == sorted([('self.flush_count', 'self.comp_flush_count'), ('self.comp_cursor', '-1'), ('self.comp_flush_count', '-1')]) \
                and seq.index(('self.flush_count', 'self.comp_flush_count')) < seq.index(('self.comp_flush_count', '-1'))
        else:
            ok = ok and seq == [('self.comp_cursor', cur)]
    ctx.check(ok, 'C14.STATE', ctx.key(f, None, 'final pass'),
              'the final pass (cursor 65536) sets flush_count := comp_flush_count, then clears cursor and comp_flush_count; other passes store the cursor',
              'the final/intermediate pass bookkeeping is not as required (flush_count must take comp_flush_count before it is cleared)',
              loc=ctx.loc(f, f.node))
    n += 1
    g = ctx.func('hist', 'History._compact_history')
    cs = q.calls_resolving_to(ctx, g, f)
    d = df.defs(g)
    okc = okw = False
    if len(cs) == 1 and len(cs[0].args) == 3 and all(isinstance(a, ast.Name) for a in cs[0].args):
        curv, wi, kd = [a.id for a in cs[0].args]
        curdefs = [rhs for st, rhs in d.get(curv, []) if isinstance(st, ast.Assign)]
        okc = len(curdefs) == 1 and ctx.res.canon(curdefs[0], g) == 'self.comp_cursor'
        wl = [s for s in g.node.body if isinstance(s, ast.While)]
        if len(wl) == 1:
            incs = [s for s in wl[0].body if isinstance(s, ast.AugAssign) and norm(s.target) == curv and const_value(s.value) == 1 and isinstance(s.op, ast.Add)]
            from .c03 import expand_locals
            cp = ctx.func('hist', 'History._compact_prefix')
            pcs = [c for c in walk_own(wl[0]) if isinstance(c, ast.Call) and ctx.res.resolve_ref(c.func, g) is not None and ctx.res.resolve_ref(c.func, g).key == cp.key]
            okw = any(q.cmp_matches(ctx, g, x, f'{curv} < 65536') for x in pr.conjuncts(wl[0].test)) and len(incs) == 1 \
                and len(pcs) == 1 and len(pcs[0].args) == 3 and norm(expand_locals(g, pcs[0].args[0])) == f'pack_be_uint16({curv})' \
                and [norm(a) for a in pcs[0].args[1:]] == [wi, kd] and q.stmt(pcs[0]).lineno < incs[0].lineno
    ctx.check(okc and okw, 'C14.STATE', ctx.key(g, None, 'cursor walk'),
              'a pass starts at comp_cursor, walks big-endian 2-byte prefixes upwards one by one (below 65536), compacting each into the pass\'s sets, and persists where it stopped',
              'the prefix walk does not start at comp_cursor / advance by one be16 prefix / compact each prefix into the sets it persists', loc=ctx.loc(g, g.node))
    return n + 1


def _cancel_merged(ctx, od, rs):
    """_cancel_compaction merged into open_db: the same two requirements on open_db's own paths - after read_state, every
    path on which the DB is not opened for compacting and the cursor is not -1 resets both progress fields to -1; a path
    opened for compacting resets nothing."""
    from .. import paths as P
    cfg = ctx.cfg(od)
    flag = od.params[4] if len(od.params) > 4 else (od.kwonly[-1] if od.kwonly else None)
    ok = len(rs) == 1 and flag is not None
    resetting = kept = 0
    for pth in P.paths(od.node.body) if ok else []:
        if pth.exit == 'raise':
            continue
        sets = {norm(st.targets[0]): (norm(st.value), st) for st, _e in pth.events if isinstance(st, ast.Assign) and len(st.targets) == 1}
        comp = P.truthy(pth, flag)
        started = P.decided(ctx, od, pth, 'self.comp_cursor != -1')
        reset = sets.get('self.comp_flush_count', ('', None))[0] == '-1' and sets.get('self.comp_cursor', ('', None))[0] == '-1'
        touched = 'self.comp_flush_count' in sets or 'self.comp_cursor' in sets
        if comp is True:
            kept += 1
            ok = ok and not touched
        elif comp is False and started is not False:
            resetting += 1
            ok = ok and reset
            # ... and after the state was read
            for key in ('self.comp_flush_count', 'self.comp_cursor'):
                if reset:
                    ok = ok and cfg.dominates(cfg.node(q.stmt(rs[0])), cfg.node(sets[key][1]))
        elif comp is None and touched:
            ok = False
    ok = ok and resetting >= 1 and kept >= 1
    ctx.check(ok, 'C14.CANCEL', ctx.key(od, None, 'cancel unless compacting'),
              'after reading the state, open_db cancels an unfinished compaction exactly when not opened for compacting',
              'open_db does not reset comp_cursor and comp_flush_count to -1 exactly under `not compacting` (and an unfinished compaction) '
              'after read_state', loc=ctx.loc(od, od.node))
    ctx.check(ok, 'C14.CANCEL', ctx.key(od, None, 'resets progress'),
              'cancelling resets comp_cursor and comp_flush_count to -1', 'cancelling does not reset both progress fields to -1',
              loc=ctx.loc(od, od.node))
    return 2 + _open_flags(ctx, od)


def rule_cancel(ctx):
    n = 0
    od = ctx.func('hist', 'History.open_db')
    cfg = ctx.cfg(od)
    cc = ctx.func('hist', 'History._cancel_compaction', required=False)
    rs = q.calls_resolving_to(ctx, od, ctx.func('hist', 'History.read_state'))
    if cc is None:
        return n + _cancel_merged(ctx, od, rs)
    cs = q.calls_resolving_to(ctx, od, cc)
    ok = len(cs) == 1 and len(rs) == 1
    if ok:
        conds = pr.control_conditions(q.stmt(cs[0]), od.node)
        ok = len(conds) == 1 and conds[0][1] and norm(conds[0][0]) == f'not {od.params[4]}'
        ok = ok and pr.path_avoiding(cfg, [cfg.entry], [cfg.node(q.stmt(cs[0]))], {cfg.node(q.stmt(rs[0]))}) is None
    ctx.check(ok, 'C14.CANCEL', ctx.key(od, None, 'cancel unless compacting'),
              'after reading the state, open_db cancels an unfinished compaction exactly when not opened for compacting',
              'open_db does not cancel an unfinished compaction exactly under `not compacting` after read_state', loc=ctx.loc(od, od.node))
    n += 1
    # every way through: unless the cursor is already -1, both progress fields are reset
    from .. import paths as P
    ps = P.paths(cc.node.body)
    body_ok = bool(ps)
    resetting = 0
    for pth in ps:
        started = P.decided(ctx, cc, pth, 'self.comp_cursor != -1')
        sets = {norm(st.targets[0]): norm(st.value) for st, _e in pth.events if isinstance(st, ast.Assign) and len(st.targets) == 1}
        if started is False:
            continue
        resetting += 1
        body_ok = body_ok and pth.exit in ('fall', 'return') and sets.get('self.comp_flush_count') == '-1' and sets.get('self.comp_cursor') == '-1'
    body_ok = body_ok and resetting >= 1
    ctx.check(body_ok, 'C14.CANCEL', ctx.key(cc, None, 'resets progress'),
              'cancelling resets comp_cursor and comp_flush_count to -1', 'cancelling does not reset both progress fields to -1',
              loc=ctx.loc(cc, cc.node))
    n += 1
    return n + _open_flags(ctx, od)


def _open_flags(ctx, od):
    n = 0
    ob = ctx.func('db', 'DB._open_dbs')
    hs = q.calls_resolving_to(ctx, ob, od)
    # the flag is followed by role, not by position: the parameter of _open_dbs (positional or keyword-only) that is handed
    # to History.open_db as its `compacting` argument
    comp_od = od.params[-1]
    b = q.bound_args(hs[0], od) if len(hs) == 1 else None
    flag = b.get(comp_od) if b else None
    sync_arg = b.get(od.params[2]) if b and len(od.params) > 2 else None
    ob_params = [p_ for p_ in ob.params + ob.kwonly if p_ != 'self']
    okp = isinstance(flag, ast.Name) and flag.id in ob_params and isinstance(sync_arg, ast.Name) and sync_arg.id in ob_params \
        and sync_arg.id != flag.id and not q.assigns(ctx, ob, flag.id)
    ctx.check(okp, 'C14.CANCEL', ctx.key(ob, None, 'passes compacting through'),
              '_open_dbs passes its compacting flag to History.open_db', '_open_dbs does not pass its compacting flag through',
              loc=ctx.loc(ob, ob.node))
    n += 1
    for qual, want in (('DB.open_for_sync', 'False'), ('DB.open_for_serving', 'False'), ('DB.open_for_compacting', 'True')):
        g = ctx.func('db', qual)
        cs = q.calls_resolving_to(ctx, g, ob)
        okf = len(cs) >= 1 and okp
        for c in cs:
            bo = q.bound_args(c, _with_kwonly(ob))
            okf = okf and bo is not None and flag is not None and flag.id in bo and norm(bo[flag.id]) == want
        ctx.check(okf, 'C14.CANCEL', ctx.key(g, None, 'compacting flag'),
                  f'{qual} opens with compacting={want}',
                  f'{qual} does not open with compacting={want}: ' + ('an abandoned compaction is resumed later on top of rows indexed meanwhile'
                                                                       if want == 'False' else 'the tool would cancel its own progress'),
                  loc=ctx.loc(g, g.node))
        n += 1
    return n


def _with_kwonly(f):
    return f          # q.bound_args binds keywords by name; keyword-only parameters need no positional slot


def rule_handover(ctx):
    f = ctx.func('compact', 'compact_history')
    cfg = ctx.cfg(f)
    n = 0
    opens = [c for c in q.own_calls(f) if q.callee_name(ctx, f, c).endswith('.open_for_compacting')]
    loops = [s for s in f.node.body if isinstance(s, ast.While)]
    sfc = [c for c in q.own_calls(f) if q.callee_name(ctx, f, c).endswith('.set_flush_count')]
    ok = len(opens) == 1 and len(loops) == 1 and len(sfc) == 1
    if ok:
        lp = loops[0]
        t = lp.test
        okl = isinstance(t, ast.Compare) and isinstance(t.ops[0], ast.NotEq) and norm(t.left).endswith('.comp_cursor') and const_value(t.comparators[0]) == -1
        body = [c for c in walk_own(lp) if isinstance(c, ast.Call) and norm(c.func).endswith('._compact_history')]
        okl = okl and len(body) == 1 and not any(isinstance(x, (ast.Break, ast.Return)) for x in walk_own(lp))
        order = q.stmt(opens[0]).lineno < lp.lineno < q.stmt(sfc[0]).lineno
        arg = norm(sfc[0].args[0]).endswith('.flush_count') and not norm(sfc[0].args[0]).endswith('comp_flush_count')
        ok = okl and order and arg and pr.path_avoiding(cfg, [cfg.entry], [cfg.exit], {cfg.node(q.stmt(sfc[0]))}) is None
    ctx.check(ok, 'C14.HANDOVER', ctx.key(f, None, 'sequence'),
              'the tool opens for compacting, loops until comp_cursor == -1, then copies history.flush_count to the UTXO DB',
              'the tool does not follow open_for_compacting -> loop until comp_cursor == -1 -> set_flush_count(history.flush_count)',
              loc=ctx.loc(f, f.node))
    n += 1
    starts = [s for s in f.node.body if isinstance(s, ast.If) and 'comp_cursor == -1' in norm(s.test)]
    oks = len(starts) == 1 and [norm(x) for x in starts[0].body] == [norm(starts[0].test.left) + ' = 0']
    ctx.check(oks, 'C14.HANDOVER', ctx.key(f, None, 'start or resume'),
              'a fresh compaction starts at cursor 0; an interrupted one resumes where it stopped',
              'the tool does not start at 0 only when no compaction is in progress', loc=ctx.loc(f, f.node))
    n += 1
    mx = [s for s in f.node.body if isinstance(s, ast.Assign) and norm(s.targets[0]).endswith('.comp_flush_count')]
    okm = len(mx) == 1 and isinstance(mx[0].value, ast.Call) and norm(mx[0].value.func) == 'max' and \
        norm(mx[0].targets[0]) in [norm(a) for a in mx[0].value.args]
    ctx.check(okm, 'C14.HANDOVER', ctx.key(f, None, 'comp_flush_count only grows'),
              'comp_flush_count is only raised, never lowered, when (re)starting', 'comp_flush_count can be lowered on (re)start',
              loc=ctx.loc(f, f.node))
    n += 1
    sf = ctx.func('db', 'DB.set_flush_count')
    a = q.assigns(ctx, sf, 'self.state.flush_count')
    w = q.calls_resolving_to(ctx, sf, ctx.func('db', 'DB.write_utxo_state'))
    okf = len(a) == 1 and norm(a[0].value) == sf.params[1] and len(w) == 1 and a[0].lineno < q.stmt(w[0]).lineno \
        and norm(w[0].args[0]) == 'self.utxo_db'
    # ... on every path, whatever the old value: the one caller uses it to LOWER the UTXO DB's count to the history's reset one
    from .. import paths as _P
    store, write = a[0] if a else None, (q.stmt(w[0]) if w else None)
    skipping = [' & '.join(p_.cond_texts())[:100] or p_.exit for p_ in _P.paths(sf.node.body)
                if p_.exit in ('return', 'fall') and not (store is not None and p_.passes(store) and write is not None and p_.passes(write))]
    # (skipping the write when the count is already the stored one changes nothing)
    skipping = [t_ for t_, p_ in zip(skipping, [p_ for p_ in _P.paths(sf.node.body) if p_.exit in ('return', 'fall') and not (
        store is not None and p_.passes(store) and write is not None and p_.passes(write))])
                if _P.decided(ctx, sf, p_, f'{sf.params[1]} == self.state.flush_count') is not True]
    okf = okf and not skipping
    ctx.check(okf, 'C14.HANDOVER', ctx.key(sf, None, 'persists the count'),
              'set_flush_count stores the count in the state and writes the UTXO state record',
              'set_flush_count does not persist the count in the UTXO state record on every path' +
              (f' (skipped when {skipping[:2]}: a count that is lowered after compaction stays stale and clear_excess no longer spots '
               f'uncommitted history)' if skipping else ''), loc=ctx.loc(sf, sf.node))
    return n + 1


def rule_rowkeys(ctx):
    f = ctx.func('hist', 'History._compact_hashX')
    cfg = ctx.cfg(f)
    hx, hmap, hlist, witems, kdel = f.params[1:6]
    d = df.defs(f)
    n = 0
    loops = [s for s in f.node.body if isinstance(s, ast.For)]
    ok, why = False, 'chunk loop not found'
    nv = cv = keyv = None
    lp = None
    if len(loops) == 1 and isinstance(loops[0].iter, ast.Call) and norm(loops[0].iter.func) == 'enumerate' and isinstance(loops[0].target, ast.Tuple):
        lp = loops[0]
        nv, cv = [norm(e) for e in lp.target.elts]
        inner = lp.iter.args[0]
        start0 = not lp.iter.keywords and len(lp.iter.args) == 1
        chunks_ok = False
        if isinstance(inner, ast.Call) and q.callee_name(ctx, f, inner).endswith('chunks') and len(inner.args) == 2:
            srcv, sizev = inner.args

            def single(e):
                if isinstance(e, ast.Name) and len(d.get(e.id, [])) == 1:
                    return d[e.id][0][1]
                return e
            src, size = single(srcv), single(sizev)
            chunks_ok = norm(src) == f"b''.join({hlist})" and norm(size) in ('self.max_hist_row_entries * 5', '5 * self.max_hist_row_entries')
        keys = [s for s in lp.body if isinstance(s, ast.Assign) and isinstance(s.targets[0], ast.Name) and norm(s.value) == f'{hx} + pack_be_uint16({nv})']
        keyv = keys[0].targets[0].id if len(keys) == 1 else None
        ok = start0 and chunks_ok and keyv is not None
        why = f'enumerate from 0 ok={start0}, fixed-size chunks of the in-order join of the rows ok={chunks_ok}, key = hashX + be16(n) ok={keyv is not None}'
    ctx.check(ok, 'C14.ROWKEYS', ctx.key(f, None, 'row keys'),
              'compacted rows are the fixed-size (max_hist_row_entries * 5 bytes) chunks of the in-order join of the rows, keyed hashX + big-endian enumeration index from 0',
              'compacted rows are not keyed hashX + be16(index from 0) over fixed-size chunks of the joined history: ' + why, loc=ctx.loc(f, f.node))
    n += 1
    mx = [s for s in q.assigns(ctx, f, 'self.comp_flush_count')]
    okm = len(mx) == 1 and isinstance(mx[0].value, ast.Call) and norm(mx[0].value.func) == 'max' and nv is not None and \
        sorted(norm(a) for a in mx[0].value.args) == sorted(['self.comp_flush_count', nv])
    p = pr.path_avoiding(cfg, [cfg.entry], [cfg.exit], {cfg.node(mx[0])}) if len(mx) == 1 else [cfg.entry]
    ctx.check(okm and p is None, 'C14.ROWKEYS', ctx.key(f, None, 'largest row number recorded'),
              'comp_flush_count = max(comp_flush_count, last row index) on every path of every script hash',
              'comp_flush_count is not raised to the last row index on every path: after the compaction flush_count can end below an '
              'existing row number and the next history flush overwrites that row', witness=cfg.describe_path(p) if p else None,
              loc=ctx.loc(f, f.node))
    n += 1
    okd = False
    if ok:
        # per path through one new row: identical to the stored row (hist_map.get(key) == chunk, or key in hist_map and
        # hist_map[key] == chunk) => un-marked and not written; otherwise written and left marked
        from .. import paths as P
        okd = True
        n_same = n_diff = 0
        for pth in P.paths(lp.body):
            same = None
            for t, pol, _n in pth.conds:
                if isinstance(t, ast.Compare) and len(t.ops) == 1 and isinstance(t.ops[0], (ast.Eq, ast.NotEq)):
                    sides = {norm(P.subst(t.left, {})), norm(t.comparators[0])}
                    kexpr = norm(pth.env[keyv]) if keyv in pth.env else keyv
                    if sides in ({f'{hmap}.get({kexpr})', cv}, {f'{hmap}[{kexpr}]', cv}, {f'{hmap}.get({keyv})', cv}, {f'{hmap}[{keyv}]', cv}):
                        eqv = (pol == isinstance(t.ops[0], ast.Eq))
                        same = eqv if same is None else (same and eqv)
                elif isinstance(t, ast.Compare) and len(t.ops) == 1 and isinstance(t.ops[0], (ast.In, ast.NotIn)) and norm(t.comparators[0]) == hmap:
                    inn = (pol == isinstance(t.ops[0], ast.In))
                    if not inn:
                        same = False
            simple = [st_ for st_, _e in pth.events if isinstance(st_, ast.Expr) and isinstance(st_.value, ast.Call)]
            removed = [st_ for st_ in simple if norm(st_.value.func) == f'{kdel}.remove']
            written = [st_ for st_ in simple if norm(st_.value.func) == f'{witems}.append']
            if any(norm(st_.value.args[0]) != keyv for st_ in removed) or any(norm(st_.value.args[0]) != f'({keyv}, {cv})' for st_ in written):
                okd = False
            if same is None:
                okd = False
            elif same:
                n_same += 1
                okd = okd and len(removed) == 1 and not written
            else:
                n_diff += 1
                okd = okd and len(written) == 1 and not removed
        okd = okd and n_same >= 1 and n_diff >= 1
        upd = [c for c in q.own_calls(f) if norm(c.func) == f'{kdel}.update' and norm(c.args[0]) == hmap]
        okd = okd and len(upd) == 1 and q.stmt(upd[0]).lineno < lp.lineno
    ctx.check(okd, 'C14.ROWKEYS', ctx.key(f, None, 'delete all, keep identical'),
              'all old rows are marked for deletion; a new row identical to the stored one is un-marked, any other is written',
              'the delete / keep / write decision per row is not as required', loc=ctx.loc(f, f.node))
    return n + 1


def rule_grouping(ctx):
    f = ctx.func('hist', 'History._compact_prefix')
    cfg = ctx.cfg(f)
    n = 0
    loops = [s for s in f.node.body if isinstance(s, ast.For) and isinstance(s.iter, ast.Call) and norm(s.iter.func) == 'self.db.iterator']
    ch = ctx.func('hist', 'History._compact_hashX')
    calls = q.calls_resolving_to(ctx, f, ch)
    d = df.defs(f)
    ok = False
    hxv = mapv = listv = priorv = keyv = hv = None
    if len(loops) == 1 and isinstance(loops[0].target, ast.Tuple) and len(calls) == 2 and all(len(c.args) == 5 for c in calls):
        lp = loops[0]
        kws = {k.arg: norm(k.value) for k in lp.iter.keywords}
        keyv, hv = [norm(e) for e in lp.target.elts]
        priorv, mapv, listv = [norm(a) for a in calls[0].args[:3]]
        skips = [s for s in lp.body if isinstance(s, ast.If) and len(s.body) == 1 and isinstance(s.body[0], ast.Continue) and isinstance(s.test, ast.Compare)
                 and isinstance(s.test.ops[0], ast.NotEq) and f'len({keyv})' in (norm(s.test.left), norm(s.test.comparators[0]))]
        kl_ok = False
        if len(skips) == 1:
            other = skips[0].test.comparators[0] if norm(skips[0].test.left) == f'len({keyv})' else skips[0].test.left
            if isinstance(other, ast.Name) and len(d.get(other.id, [])) == 1:
                other = d[other.id][0][1]
            kl_ok = norm(other) in ('HASHX_LEN + 2', '2 + HASHX_LEN')
        # hashX = key[:-2]; behind the length guard key[:HASHX_LEN] is the same slice
        hx = [s for s in lp.body if isinstance(s, ast.Assign) and isinstance(s.targets[0], ast.Name)
              and (norm(s.value) == f'{keyv}[:-2]' or (kl_ok and norm(s.value) == f'{keyv}[:HASHX_LEN]'))]
        hxv = hx[0].targets[0].id if len(hx) == 1 else None
        ok = kws == {'prefix': f.params[1]} and len(skips) == 1 and kl_ok and hxv is not None and lp.body.index(skips[0]) < lp.body.index(hx[0])
    ctx.check(ok, 'C14.GROUPING', ctx.key(f, None, 'rows of one prefix'),
              'all rows under the prefix are visited in key order; non-history keys (length != HASHX_LEN + 2) are skipped; hashX = key[:-2]',
              'rows are not grouped by key[:-2] over the prefix iterator with non-history keys skipped', loc=ctx.loc(f, f.node))
    n += 1
    okc = ok and all([norm(a) for a in c.args] == [priorv, mapv, listv, f.params[2], f.params[3]] for c in calls)
    ctx.check(bool(okc), 'C14.GROUPING', ctx.key(f, None, 'each group compacted'),
              'each completed group, and the last one, is compacted with its own rows', 'groups are not each compacted with their own rows',
              loc=ctx.loc(f, f.node))
    n += 1
    if ok:
        lp = loops[0]
        # per path through one row that is not skipped: the row joins the map and the list, last thing, and afterwards the
        # remembered script hash is this row's (assigned, or found equal already)
        from .. import paths as P
        okf = True
        rows = 0
        for pth in P.paths(lp.body):
            if pth.exit == 'continue' and not any(isinstance(st_, ast.Assign) and norm(st_.targets[0]) == f'{mapv}[{keyv}]' for st_, _e in pth.events):
                continue
            rows += 1
            simple = [norm(st_) for st_, _e in pth.events if isinstance(st_, (ast.Assign, ast.Expr))]
            okf = okf and simple[-2:] == [f'{mapv}[{keyv}] = {hv}', f'{listv}.append({hv})'] and pth.exit in ('fall', 'continue')
            cur_hx = norm(pth.env.get(hxv)) if hxv in pth.env else None
            prior_now = norm(pth.env.get(priorv)) if priorv in pth.env else priorv
            same = cur_hx is not None and prior_now == cur_hx
            if not same:
                same = any((not pol) and isinstance(t, ast.Compare) and isinstance(t.ops[0], ast.NotEq)
                           and {norm(t.left), norm(t.comparators[0])} == {cur_hx, priorv} for t, pol, _n in pth.conds if isinstance(t, ast.expr)) or \
                    any(pol and isinstance(t, ast.Compare) and isinstance(t.ops[0], ast.Eq)
                        and {norm(t.left), norm(t.comparators[0])} == {cur_hx, priorv} for t, pol, _n in pth.conds if isinstance(t, ast.expr))
            okf = okf and same
        okf = okf and rows >= 1
        clears = sorted(norm(c) for c in walk_own(lp) if isinstance(c, ast.Call) and isinstance(c.func, ast.Attribute) and c.func.attr == 'clear')
        okf = okf and clears == sorted([f'{listv}.clear()', f'{mapv}.clear()'])
        # the in-loop compaction happens exactly when the script hash changes (and a previous one exists)
        inloop = [c for c in calls if q.in_body(c, lp.body)]
        if len(inloop) == 1:
            conds = pr.control_conditions(q.stmt(inloop[0]), lp)
            cj = {norm(x) for t, b, _p in conds if b for x in pr.conjuncts(t)}
            okf = okf and cj in ({f'{hxv} != {priorv}', priorv}, {f'{priorv} != {hxv}', priorv})
        else:
            okf = False
        after = [c for c in calls if not q.in_body(c, lp.body)]
        okf = okf and len(after) == 1 and [norm(t) for t, b, _p in pr.control_conditions(q.stmt(after[0]), f.node) if b] == [priorv]
        ctx.check(okf, 'C14.GROUPING', ctx.key(f, lp, 'group accumulation'),
                  'rows accumulate per script hash (map and ordered list); a group is compacted and reset when the script hash changes, the last one after the loop',
                  'per-script-hash accumulation / compaction / reset is not as required', loc=ctx.loc(f, lp))
        n += 1
    return n


