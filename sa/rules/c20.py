'''C20 - notifications only at heights both sources agree on, nothing dropped.

Decided: NODROP (every way an entry can leave or be replaced in the two pending containers feeds the
notified set, and the notification post-dominates the removal), HEIGHT (provenance of the notified
height: a common key of both containers, or the highest reported block under the guard that it is the
newest mempool key), RECORD (each source records before the join is attempted; the block source also
moves the highest-block mark).
Not decided: the exhaustive sequence semantics (a model-checking question).
'''
import ast

from ..model import AnalysisError, norm, walk_own
from .. import q, pathrules as pr, dataflow as df

EXPLANATION = ('static necessary conditions of C20 on controller.Notifications: no-drop discipline on _touched_mp/_touched_bp '
               '(pop results flow into the notified set, no del/clear/overwrite), provenance and guards of the notified '
               'height, record-before-join order in on_block/on_mempool/start. Does NOT decide the sequence semantics.')
ASSUMPTIONS = ['dict.pop(k) without default raises KeyError when k is absent (so a popped height was a key)',
               'the two containers are only touched inside class Notifications (checked: WHO)']

PENDING = ('self._touched_mp', 'self._touched_bp')


def class_funcs(ctx, mod, cls):
    rel = ctx.repo.path(mod)
    return [f for f in ctx.repo.funcs.values() if f.unit.relpath == rel and f.cls == cls]


def run(ctx):
    ctx.rule('C20', lambda: _run(ctx))
    sources(ctx)


def sources(ctx, prefix='C20'):
    '''The two sources behave as the join assumes: the block processor reports every height it reaches (also for blocks that
    touch nothing), the mempool tracker reports every completed refresh with the height its listing belongs to.'''
    from . import c07, c09
    ctx.rule(f'{prefix}.BLOCKSOURCE', lambda: c07.rule_flushnotify(ctx), 4)
    ctx.rule(f'{prefix}.MEMPOOLSOURCE', lambda: c09.rule_refresh_handover(ctx, f'{prefix}.MEMPOOLSOURCE'), 3)
    ctx.rule(f'{prefix}.HEIGHTQUERY', lambda: rule_height_query(ctx, f'{prefix}.HEIGHTQUERY'), 1)
    ctx.rule(f'{prefix}.STARTHEIGHT', lambda: rule_start_height(ctx, f'{prefix}.STARTHEIGHT'), 1)


def rule_start_height(ctx, rule):
    """The join is seeded with the height both sources can answer for: the *flushed* DB height.  The block processor's
    in-memory height can be ahead of it (blocks processed but not flushed when serving starts); seeded with that, the first
    notification announces a height clients cannot query yet."""
    st = ctx.func('ctl', 'Notifications.start')
    n = 0
    for f in ctx.repo.funcs.values():
        for c in q.own_calls(f):
            t = ctx.res.resolve_ref(c.func, f)
            named = isinstance(c.func, ast.Attribute) and c.func.attr == 'start' and norm(c.func.value).split('.')[-1] == 'notifications'
            if not ((t is not None and t.key == st.key) or named) or not c.args:
                continue
            n += 1
            src = ctx.res.canon(c.args[0], f) or norm(c.args[0])
            ctx.check(src == 'self.db.state.height', rule, ctx.key(f, q.stmt(c), 'seeded with the flushed height'),
                      'notifications start from the flushed DB height',
                      f'notifications start from `{norm(c.args[0])}`, not from the flushed DB height self.db.state.height',
                      loc=ctx.loc(f, c))
    return n


def rule_height_query(ctx, rule):
    '''The mempool tracker brackets its listing between cached_height() and `await height()`; the bracket means something
    only if height() asks the daemon every time.  A height() that answers from a cache makes the second reading equal the
    first by construction.'''
    f = ctx.func('daemon', 'Daemon.height')
    cfg = ctx.cfg(f)
    qs = [q.stmt(c) for c in q.own_calls(f) if q.callee_name(ctx, f, c) == 'self._send_single']
    p = pr.path_avoiding(cfg, [cfg.entry], [cfg.exit], {cfg.node(s_) for s_ in qs}) if qs else [0]
    ctx.check(bool(qs) and p is None, rule, ctx.key(f, None, 'asks the daemon on every call'),
              'every call of Daemon.height() sends a request to the daemon',
              'Daemon.height() can return without asking the daemon (a cached value): the mempool tracker\'s "height unchanged across the '
              'listing" test compares the cache with itself, and a listing taken across a new block is reported under the old height',
              witness=cfg.describe_path(p) if (p and qs) else None, loc=ctx.loc(f, f.node))
    return 1


def _run(ctx):
    ctx.repo.cls('ctl', 'Notifications')
    funcs = class_funcs(ctx, 'ctl', 'Notifications')
    mn = ctx.func('ctl', 'Notifications._maybe_notify')
    cfg = ctx.cfg(mn)

    # the notification call in _maybe_notify
    ncalls = [c for c in q.own_calls(mn) if q.callee_name(ctx, mn, c) == 'self.notify']
    if len(ncalls) != 1 or len(ncalls[0].args) != 2:
        raise AnalysisError('Notifications._maybe_notify: expected one self.notify(height, touched) call')
    ncall = ncalls[0]
    nnode = cfg.node(q.stmt(ncall))
    hvar, tvar = ncall.args
    if not isinstance(tvar, ast.Name):
        # the set handed to the sessions is built on the spot instead of being the one taken OUT of the pending containers:
        # the pending entries are then still there when notify() suspends (a re-entrant call reports them again), or are
        # removed by some other statement later - either way not what the removal rules below can follow
        ctx.bad('C20.NODROP', ctx.key(mn, q.stmt(ncall), 'notified set'),
                f'the notified set is `{norm(tvar)[:80]}`, not the set popped out of the pending containers before the notification: '
                'entries stay pending across the suspension in notify() (reported twice by a re-entrant call, or deleted afterwards '
                'together with what arrived meanwhile)', loc=ctx.loc(mn, ncall))
        return
    if not isinstance(hvar, ast.Name):
        # the height handed to the sessions is not the local whose provenance is checked below: find that local through
        # the mempool pop (the set taken is the one recorded at the agreed height) and report the call
        ctx.bad('C20.HEIGHT', ctx.key(mn, q.stmt(ncall), 'notified height'),
                f'the notification is sent for `{norm(hvar)}`, not for the height the two sources were found to agree on',
                loc=ctx.loc(mn, ncall))
        cands = [c.args[0] for c in q.own_calls(mn) if isinstance(c.func, ast.Attribute) and c.func.attr == 'pop'
                 and ctx.res.canon(c.func.value, mn) == 'self._touched_mp' and len(c.args) == 1 and isinstance(c.args[0], ast.Name)]
        if not cands:
            return
        hvar = cands[0]

    # ------------------------------------------------------------------ NODROP
    def pend(e, f_):
        """the pending container an expression denotes: directly, or as the variable of a loop over a display of them
        (`for pending in (self._touched_mp, self._touched_bp): ...`)"""
        c_ = ctx.res.canon(e, f_)
        if c_ in PENDING:
            return c_
        if isinstance(e, ast.Name):
            for lp_ in f_.own_nodes():
                if isinstance(lp_, (ast.For, ast.comprehension)) and isinstance(lp_.target, ast.Name) and lp_.target.id == e.id \
                        and isinstance(lp_.iter, (ast.Tuple, ast.List)):
                    hit = [ctx.res.canon(x, f_) for x in lp_.iter.elts if ctx.res.canon(x, f_) in PENDING]
                    if hit:
                        return hit[0]
        return None
    n_sites = 0
    for f in funcs:
        if f.name == '__init__':
            continue
        fcfg = ctx.cfg(f)
        for node in f.own_nodes():
            # removals / overwrites of the pending containers
            if isinstance(node, ast.Delete):
                for t in node.targets:
                    if isinstance(t, ast.Subscript) and pend(t.value, f):
                        n_sites += 1
                        ctx.bad('C20.NODROP', ctx.key(f, node),
                                f'`{norm(node)}` discards a pending touched set: its script hashes are never notified',
                                loc=ctx.loc(f, node))
            elif isinstance(node, ast.Assign):
                for t in node.targets:
                    if isinstance(t, ast.Subscript) and ctx.res.canon(t.value, f) in PENDING:
                        n_sites += 1
                        cont = ctx.res.canon(t.value, f)
                        conds = pr.control_conditions(node, f.node)
                        guarded = False
                        for test, branch, _p in conds:
                            if isinstance(test, ast.Compare) and len(test.ops) == 1 and \
                                    ctx.res.canon(test.comparators[0], f) == cont and norm(test.left) == norm(t.slice):
                                if (isinstance(test.ops[0], ast.NotIn) and branch) or (isinstance(test.ops[0], ast.In) and not branch):
                                    guarded = True
                        ctx.check(guarded, 'C20.NODROP', ctx.key(f, node),
                                  'plain store only when no set is pending under that height',
                                  f'`{norm(node)}` replaces a set that may still be pending at that height '
                                  '(the same source can report a height twice before the other one arrives)',
                                  loc=ctx.loc(f, node))
                    elif ctx.res.canon(t, f) in PENDING and isinstance(t, ast.Attribute):
                        n_sites += 1
                        ctx.bad('C20.NODROP', ctx.key(f, node), 'pending container rebound outside __init__ (drops everything pending)',
                                loc=ctx.loc(f, node))
            elif isinstance(node, ast.Call) and isinstance(node.func, ast.Attribute):
                base = pend(node.func.value, f)
                if base is None:
                    continue
                meth = node.func.attr
                if meth in ('clear', 'popitem'):
                    n_sites += 1
                    ctx.bad('C20.NODROP', ctx.key(f, q.stmt(node)), f'`{norm(node)}` discards pending touched sets',
                            loc=ctx.loc(f, node))
                elif meth == 'pop':
                    n_sites += 1
                    s = q.stmt(node)
                    par = getattr(node, '_parent', None)
                    flows = False
                    why = 'the popped set is not merged into the notified set'
                    if f is mn:
                        if isinstance(par, ast.Assign) and par.value is node and len(par.targets) == 1 \
                                and norm(par.targets[0]) == tvar.id:
                            flows = True
                        elif isinstance(par, ast.Call) and isinstance(par.func, ast.Attribute) \
                                and par.func.attr in ('update',) and norm(par.func.value) == tvar.id and node in par.args:
                            flows = True
                        elif isinstance(par, ast.AugAssign) and isinstance(par.op, ast.BitOr) and norm(par.target) == tvar.id:
                            flows = True
                        if len(node.args) != 1:
                            flows = False
                            why = 'pop with a default hides a missing key'
                        if flows:
                            p = pr.path_avoiding(cfg, [cfg.node(s)], [cfg.exit], {nnode})
                            if p is not None:
                                flows = False
                                why = 'a path from the removal reaches the exit without notifying: ' + ' -> '.join(cfg.describe_path(p))
                    ctx.check(flows, 'C20.NODROP', ctx.key(f, s),
                              'popped set flows into the notified set and the notification follows on every path',
                              why, loc=ctx.loc(f, s))
                elif meth in ('setdefault', 'get', 'items', 'keys', 'values', 'copy', 'update', '__contains__'):
                    pass
                else:
                    raise AnalysisError(f'{f.key}: unknown operation on a pending container: {norm(node)}')
    ctx.floor('C20.NODROP', 2, n_sites)

    # the notified set variable must only grow between its creation and the notification
    shr = []
    for c in q.own_calls(mn):
        if isinstance(c.func, ast.Attribute) and norm(c.func.value) == tvar.id and \
                c.func.attr in ('clear', 'discard', 'remove', 'pop', 'difference_update', 'intersection_update'):
            shr.append(c)
    tdefs = [s for s in q.assigns(ctx, mn, tvar.id)]
    ctx.check(not shr and len(tdefs) == 1, 'C20.NODROP', ctx.key(mn, None, f'{tvar.id} only grows'),
              'the notified set is created once and only added to', 'the notified set is shrunk or rebound before notifying: '
              + ', '.join(norm(x) for x in shr + tdefs[1:]), loc=ctx.loc(mn, mn.node))

    # ------------------------------------------------------------------ WHO: containers private to the class
    outsiders = []
    for f in ctx.repo.funcs.values():
        if f.cls == 'Notifications':
            continue
        for n in f.own_nodes():
            if isinstance(n, ast.Attribute) and n.attr in ('_touched_mp', '_touched_bp', '_highest_block'):
                outsiders.append(f'{ctx.loc(f, n)} {norm(n)}')
    ctx.check(not outsiders, 'C20.WHO', 'electrumx/server/controller.py :: Notifications :: pending state private',
              'the pending containers are touched only inside Notifications', f'touched outside the class: {outsiders}')

    # ------------------------------------------------------------------ HEIGHT
    d = df.defs(mn)
    hdefs = d.get(hvar.id, [])
    if not hdefs:
        raise AnalysisError('_maybe_notify: no definition of the notified height')
    al = ctx.res.aliases(mn)

    def cpath(e):
        return ctx.res.canon(e, mn)

    def is_common_expr(e):
        '''intersection of the key sets of both containers'''
        if isinstance(e, ast.Call) and isinstance(e.func, ast.Attribute) and e.func.attr == 'intersection' and len(e.args) == 1:
            a, b = e.func.value, e.args[0]
            def keys_of(x):
                if isinstance(x, ast.Call) and norm(x.func) == 'set' and len(x.args) == 1:
                    x = x.args[0]
                if isinstance(x, ast.Call) and isinstance(x.func, ast.Attribute) and x.func.attr == 'keys':
                    x = x.func.value
                return cpath(x)
            return {keys_of(a), keys_of(b)} == set(PENDING)
        if isinstance(e, ast.BinOp) and isinstance(e.op, ast.BitAnd):
            def keys_of(x):
                if isinstance(x, ast.Call) and norm(x.func) == 'set' and len(x.args) == 1:
                    x = x.args[0]
                if isinstance(x, ast.Call) and isinstance(x.func, ast.Attribute) and x.func.attr == 'keys':
                    x = x.func.value
                return cpath(x)
            return {keys_of(e.left), keys_of(e.right)} == set(PENDING)
        return False

    # decided per path to the notification (so `if common: ... elif ...: ... else: return`, guard clauses, conditional
    # expressions and inverted tests all read the same): the notified height is either max(common) with common non-empty,
    # or _highest_block on a path that established max(_touched_mp) == _highest_block
    from .. import paths as P
    n_h = 0
    forms = {}
    for pth in P.paths(mn.node.body):
        evs = [env_ for st_, env_ in pth.events if st_ is q.stmt(ncall)]
        if not evs:
            continue
        h = P.subst(hvar, evs[0])
        ok, why, label = False, f'the notified height `{norm(h)}` is not one of the two agreed forms', 'other'
        if isinstance(h, ast.Call) and norm(h.func) == 'max' and len(h.args) == 1 and is_common_expr(h.args[0]):
            label = 'max(common)'
            ctext = norm(h.args[0])
            ok = any(pol and isinstance(t, ast.expr) and norm(t) == ctext for t, pol, _n in pth.conds)
            why = 'max(common) taken without the guard that the intersection is non-empty'
        elif cpath(h) == 'self._highest_block':
            label = 'highest block'
            for t, pol, _n in pth.conds:
                if isinstance(t, ast.Compare) and len(t.ops) == 1 and isinstance(t.ops[0], (ast.Eq, ast.NotEq)) \
                        and pol == isinstance(t.ops[0], ast.Eq):
                    sides = [t.left, t.comparators[0]]
                    for i in (0, 1):
                        m, o = sides[i], sides[1 - i]
                        if isinstance(m, ast.Call) and norm(m.func) == 'max' and len(m.args) == 1 \
                                and cpath(m.args[0]) == 'self._touched_mp' and cpath(o) == 'self._highest_block':
                            ok = True
            why = 'highest block used as the height without the guard max(_touched_mp) == _highest_block'
        prev = forms.get(label)
        forms[label] = (ok and (prev[0] if prev else True), why if not ok else (prev[1] if prev else why))
    for label, (ok, why) in sorted(forms.items()):
        n_h += 1
        ctx.check(ok, 'C20.HEIGHT', ctx.key(mn, None, f'notified height: {label}'), 'notified height is agreed by both sources', why,
                  loc=ctx.loc(mn, ncall))
    ctx.floor('C20.HEIGHT', 2, n_h)
    # NOSKIP: a path through _maybe_notify that does not notify is decided by the pending containers and the highest block
    # alone - any other condition (a "busy" flag, a timer, a counter) leaves an agreed height unannounced until some later
    # report happens to come along
    allowed_reads = set(PENDING) | {'self._highest_block'}
    for pth in P.paths(mn.node.body):
        if any(st_ is q.stmt(ncall) for st_, _e in pth.events) or pth.exit == 'raise':
            continue
        foreign = sorted({ctx.res.canon(x, mn) or norm(x) for t, _pol, _n in pth.conds if isinstance(t, ast.expr) for x in ast.walk(t)
                          if isinstance(x, ast.Attribute) and isinstance(x.value, ast.Name) and x.value.id == 'self'
                          and (ctx.res.canon(x, mn) or norm(x)) not in allowed_reads})
        if foreign:
            ctx.bad('C20.NOSKIP', ctx.key(mn, None, 'skip decided by ' + ', '.join(foreign)),
                    f'_maybe_notify can return without notifying under a condition on {foreign}: a height both sources agree on stays '
                    'unannounced although nothing is missing', loc=ctx.loc(mn, pth.node or mn.node))
    ctx.ok('C20.NOSKIP', ctx.key(mn, None, 'skips decided by the pending state'), 'every non-notifying path is decided by the pending containers / highest block')
    # every path to the notification defines the height (no other definition / fall-through)
    defnodes = {cfg.node(st) for st, _ in hdefs}
    p = pr.path_avoiding(cfg, [cfg.entry], [nnode], defnodes)
    ctx.check(p is None, 'C20.HEIGHT', ctx.key(mn, q.stmt(ncall), 'height defined on every path'),
              'every path to the notification passes one of the checked height definitions',
              'a path reaches the notification without a checked height definition',
              witness=cfg.describe_path(p) if p else None, loc=ctx.loc(mn, ncall))
    # the mempool set of that very height is the one popped (without default)
    pops = [c for c in q.own_calls(mn) if isinstance(c.func, ast.Attribute) and c.func.attr == 'pop'
            and cpath(c.func.value) == 'self._touched_mp' and len(c.args) == 1 and norm(c.args[0]) == hvar.id]
    ctx.check(len(pops) == 1 and cfg.dominates(cfg.node(q.stmt(pops[0])), nnode), 'C20.HEIGHT',
              ctx.key(mn, None, 'mempool set of the notified height'),
              'the mempool set recorded at the notified height is taken (KeyError if there is none)',
              'the notification is not preceded by taking the mempool set recorded at that height', loc=ctx.loc(mn, ncall))
    # older entries: only heights <= the notified height are swept
    def containers(e):
        """the pending containers an iterable expression ranges over: itself, or - for the variable of an enclosing
        `for pending in (self._touched_mp, self._touched_bp):` - every member of that display"""
        c_ = cpath(e)
        if c_ in PENDING:
            return [c_]
        if isinstance(e, ast.Name):
            for lp_ in mn.own_nodes():
                if isinstance(lp_, ast.For) and isinstance(lp_.target, ast.Name) and lp_.target.id == e.id and isinstance(lp_.iter, (ast.Tuple, ast.List)):
                    got = [cpath(x) for x in lp_.iter.elts]
                    if got and all(g_ in PENDING for g_ in got):
                        return got
        return []
    n_s = 0
    for loop in [s for s in mn.own_nodes() if isinstance(s, ast.For)]:
        it = loop.iter
        if isinstance(it, ast.ListComp) and len(it.generators) == 1:
            g = it.generators[0]
            conts = containers(g.iter)
            if conts:
                okc = len(g.ifs) == 1 and q.cmp_matches(ctx, mn, g.ifs[0], f'{norm(g.target)} <= {hvar.id}') and norm(it.elt) == norm(g.target)
                swept = [c for c in walk_own(loop) if isinstance(c, ast.Call) and isinstance(c.func, ast.Attribute)
                         and c.func.attr == 'pop' and norm(c.func.value) == norm(g.iter) and norm(c.args[0]) == norm(loop.target)]
                for cont in conts:
                    n_s += 1
                    ctx.check(okc and len(swept) == 1, 'C20.SWEEP', ctx.key(mn, loop, cont),
                              f'all entries of {cont} at heights <= the notified height are merged into the notification',
                              f'the sweep over {cont} does not cover exactly the heights <= the notified height', loc=ctx.loc(mn, loop))
    # any other loop that pops from a pending container by its loop variable is a sweep of another spelling: it must look at
    # EVERY key (heights are not in ascending insertion order once they go down after a reorganisation)
    for loop in [s for s in mn.own_nodes() if isinstance(s, ast.For)]:
        it = loop.iter
        if isinstance(it, ast.ListComp) and len(it.generators) == 1 and containers(it.generators[0].iter):
            continue
        popped = [c for c in walk_own(loop) if isinstance(c, ast.Call) and isinstance(c.func, ast.Attribute) and c.func.attr == 'pop'
                  and containers(c.func.value) and c.args and norm(c.args[0]) == norm(loop.target)]
        if popped:
            n_s += 1
            ctx.bad('C20.SWEEP', ctx.key(mn, loop), f'the sweep iterates `{norm(it)[:70]}`: it does not examine every pending height (a prefix / '
                    'ordered walk stops at the first greater key), so a set pending at a lower height behind a higher key is neither merged '
                    'nor removed once heights have gone down', loc=ctx.loc(mn, loop))
    # both containers are swept
    swept_all = set()
    for loop in [s for s in mn.own_nodes() if isinstance(s, ast.For)]:
        if isinstance(loop.iter, ast.ListComp) and len(loop.iter.generators) == 1:
            swept_all |= set(containers(loop.iter.generators[0].iter))
    ctx.check(swept_all == set(PENDING), 'C20.SWEEP', ctx.key(mn, None, 'both containers swept'),
              'the mempool and the block container are both swept', f'only {sorted(swept_all)} swept', loc=ctx.loc(mn, mn.node))
    ctx.floor('C20.SWEEP', 2, n_s)

    # ------------------------------------------------------------------ RECORD
    n_r = 0
    for name, cont, mark in (('on_mempool', 'self._touched_mp', False), ('on_block', 'self._touched_bp', True)):
        f = ctx.func('ctl', f'Notifications.{name}')
        fcfg = ctx.cfg(f)
        joins = [q.stmt(c) for c in q.own_calls(f) if q.callee_name(ctx, f, c) == 'self._maybe_notify']
        if len(joins) != 1:
            raise AnalysisError(f'{f.key}: expected one call of self._maybe_notify')
        awaited = isinstance(joins[0], ast.Expr) and isinstance(joins[0].value, ast.Await)
        tparam, hparam = f.params[1], f.params[2]
        recs = []
        for n in f.own_nodes():
            if isinstance(n, ast.Call) and isinstance(n.func, ast.Attribute) and n.func.attr in ('update', '__ior__'):
                inner = n.func.value
                if isinstance(inner, ast.Call) and isinstance(inner.func, ast.Attribute) and inner.func.attr == 'setdefault' \
                        and ctx.res.canon(inner.func.value, f) == cont and norm(inner.args[0]) == hparam \
                        and len(n.args) == 1 and norm(n.args[0]) == tparam:
                    recs.append(q.stmt(n))
                elif isinstance(inner, ast.Subscript) and ctx.res.canon(inner.value, f) == cont and norm(inner.slice) == hparam \
                        and len(n.args) == 1 and norm(n.args[0]) == tparam:
                    recs.append(q.stmt(n))
            if isinstance(n, ast.Assign) and isinstance(n.targets[0], ast.Subscript) and \
                    ctx.res.canon(n.targets[0].value, f) == cont and norm(n.targets[0].slice) == hparam and norm(n.value) == tparam:
                recs.append(n)
        jn = fcfg.node(joins[0])
        p = pr.path_avoiding(fcfg, [fcfg.entry], [jn], {fcfg.node(r) for r in recs})
        if p is None and recs:
            # ... and no way out of the function skips the record (an early return drops the reported set)
            p = pr.path_avoiding(fcfg, [fcfg.entry], [fcfg.exit], {fcfg.node(r) for r in recs})
        rebound = [s_ for s_ in q.assigns(ctx, f, hparam)]      # (a defensive copy of the set is harmless)
        ctx.check(not rebound, 'C20.RECORD', ctx.key(f, None, 'recorded under the reported height'),
                  'the report is recorded under the height it was made for (the height parameter is not re-assigned)',
                  'the report is re-labelled before it is recorded: ' + '; '.join(norm(x) for x in rebound[:2]) + ' - a refresh taken at h is '
                  'filed under another height, so a notification for that height goes out without a refresh at it',
                  loc=ctx.loc(f, rebound[0] if rebound else f.node))
        n_r += 1
        ctx.check(bool(recs) and p is None and awaited, 'C20.RECORD', ctx.key(f, joins[0], 'recorded first'),
                  f'the reported set is recorded under its height in {cont} before the join is attempted',
                  f'the join can run, or the function can return, without the reported set having been recorded in {cont} under its height',
                  witness=fcfg.describe_path(p) if p else None, loc=ctx.loc(f, joins[0]))
        n_r += 1
        marks = [s for s in q.assigns(ctx, f, 'self._highest_block')]
        if mark:
            okm = len(marks) == 1 and norm(marks[0].value) == hparam and \
                pr.path_avoiding(fcfg, [fcfg.entry], [jn], {fcfg.node(marks[0])}) is None
            ctx.check(okm, 'C20.RECORD', ctx.key(f, joins[0], 'highest block moved'),
                      'the highest-block mark is set to the reported height before the join (also when heights go down)',
                      'the highest-block mark is not set to the reported height before the join', loc=ctx.loc(f, f.node))
        else:
            ctx.check(not marks, 'C20.RECORD', ctx.key(f, None, 'mark untouched'),
                      'a mempool report does not move the highest-block mark', 'a mempool report moves the highest-block mark',
                      loc=ctx.loc(f, f.node))
        n_r += 1
    st = ctx.func('ctl', 'Notifications.start')
    marks = q.assigns(ctx, st, 'self._highest_block')
    ctx.check(len(marks) == 1 and norm(marks[0].value) == st.params[1], 'C20.RECORD', ctx.key(st, None, 'start-up height'),
              'start-up records its height as the highest block', 'start-up does not record its height as the highest block',
              loc=ctx.loc(st, st.node))
    stcfg = ctx.cfg(st)
    inst = [s_ for s_ in q.assigns(ctx, st, 'self.notify')]
    from ..suspend import Suspension
    sus_ = Suspension(ctx)
    early = []
    if inst:
        inn = {stcfg.node(s_) for s_ in inst}
        for m_ in stcfg.g.nodes:
            a_ = stcfg.ast(m_)
            if a_ is None or m_ in inn or stcfg.kind(m_) in ('with_exit', 'finally'):
                continue
            if isinstance(a_, ast.stmt) and any(isinstance(x, ast.Await) for x in ast.walk(a_)) and \
                    pr.path_avoiding(stcfg, [stcfg.entry], [m_], inn) is not None:
                early.append(f'line {a_.lineno} `{norm(a_)[:50]}`')
    ctx.check(bool(inst) and not early, 'C20.RECORD', ctx.key(st, None, 'callback installed before the first suspension'),
              'start() installs the notify callback before it awaits anything',
              f'start() awaits ({"; ".join(early)}) before the callback is installed: sets that become due while it is suspended are handed to '
              'the default no-op notify and lost', loc=ctx.loc(st, st.node))
    ctx.floor('C20.RECORD', 5, n_r + 2)
