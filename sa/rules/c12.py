'''C12 - merkle library agrees with the definition (thin static part).

Decided: INT (branch length / tree depth computed in exact integer arithmetic), ONEAPPEND (one branch
element, one index shift, one level reduction per level on every path), TSCINDEP (classic and TSC runs
take the same index/hash updates), MARKER (the '*' marker is appended only under tsc_format), ALIGN
(the cache writes its level only at segment-aligned positions).
Not decided: that a branch folds to the root, equality with a from-scratch computation (numeric).
'''
import ast

from ..model import norm, walk_own, AnalysisError, const_value
from .. import q, pathrules as pr, dataflow as df

EXPLANATION = ('static necessary conditions of C12 on electrumx/lib/merkle.py: exact-integer branch length, '
               'one append / one shift / one reduction per tree level on every CFG path, TSC independence of '
               'the index and hash updates, marker only under tsc_format, segment-aligned cache writes. '
               'Does NOT decide that branches fold to the root or equal a from-scratch computation.')
ASSUMPTIONS = ['python int operations (+,-,*,//,%,<<,>>,&,|,^,bit_length) are exact',
               'float routes (math.log/ceil/sqrt, /, float()) are inexact above 2**53']

FLOAT_CALLS = {'log', 'log2', 'log10', 'ceil', 'floor', 'sqrt', 'float', 'pow', 'round', 'exp', 'fsum', 'trunc'}


def float_constructs(exprs):
    bad = []
    for e in exprs:
        for n in walk_own(e):
            if isinstance(n, ast.Call):
                name = norm(n.func).split('.')[-1]
                if name in FLOAT_CALLS:
                    bad.append(n)
            elif isinstance(n, ast.BinOp) and isinstance(n.op, ast.Div):
                bad.append(n)
            elif isinstance(n, ast.BinOp) and isinstance(n.op, ast.Pow):
                ex = const_value(n.right)
                if not (isinstance(ex, int) and ex >= 0):
                    bad.append(n)
            elif isinstance(n, ast.Constant) and isinstance(n.value, float):
                bad.append(n)
    return bad


def rule_int(ctx, func, rule='C12.INT'):
    rets = [n for n in func.own_nodes() if isinstance(n, ast.Return) and n.value is not None]
    n_checked = 0
    for r in rets:
        exprs, _names = df.backward_slice(func, r.value)
        bad = float_constructs(exprs)
        n_checked += 1
        ctx.check(not bad, rule, ctx.key(func, r),
                  'return value computed with integer operations only',
                  'integer result routed through floating point: ' + ', '.join(norm(b) for b in bad),
                  witness=[f'{ctx.loc(func, b)} {norm(b)}' for b in bad], loc=ctx.loc(func, r))
    return n_checked


def rule_int_all(ctx):
    merkle_bl = ctx.func('merkle', 'Merkle.branch_length')
    merkle_td = ctx.func('merkle', 'Merkle.tree_depth')
    n = rule_int(ctx, merkle_bl) + rule_int(ctx, merkle_td)

    # positive control: the rule must report the float route in the fixture
    from ..selfcheck import fixture_ctx
    fx = fixture_ctx('merkle_float.py')
    fxf = fx.repo.func('fixture', 'branch_length_float')
    got = rule_int(fx, fxf, 'C12.INT')
    if not any(o.verdict == 'violated' for o in fx.obligations):
        raise AnalysisError('positive control failed: C12.INT did not report the float fixture')
    ctx.note('positive control C12.INT: fixture merkle_float.py reported as expected')
    return n


def rule_branch_loop(ctx):
    # ONEAPPEND / TSCINDEP / MARKER on branch_and_root
    bar = ctx.func('merkle', 'Merkle.branch_and_root')
    cfg = ctx.cfg(bar)
    rets_ = [r for r in bar.own_nodes() if isinstance(r, ast.Return) and isinstance(r.value, ast.Tuple) and len(r.value.elts) == 2
             and isinstance(r.value.elts[0], ast.Name)]
    if len(rets_) != 1:
        raise AnalysisError('Merkle.branch_and_root: expected `return <branch list>, <root>`')
    BR = rets_[0].value.elts[0].id
    HS = norm(rets_[0].value.elts[1].value) if isinstance(rets_[0].value.elts[1], ast.Subscript) else 'hashes'
    loops = [s for s in bar.own_nodes() if isinstance(s, (ast.For, ast.While))
             and any(isinstance(c, ast.Call) and q.callee_name(ctx, bar, c) == f'{BR}.append'
                     for c in walk_own(s))]
    loops = [l for l in loops if not any(isinstance(a, (ast.For, ast.While)) and a is not l and
                                         any(x is l for x in ast.walk(a)) for a in loops)]
    if len(loops) != 1:
        raise AnalysisError('Merkle.branch_and_root: expected one level loop appending to branch')
    loop = loops[0]
    appends = [q.stmt(c) for c in q.calls_named(ctx, bar, f'{BR}.append')]
    ok, wit = pr.once_per_iteration(cfg, loop, [cfg.node(s) for s in appends])
    ctx.check(ok, 'C12.ONEAPPEND', ctx.key(bar, loop, 'branch.append'),
              'every level iteration appends exactly one branch element on every path',
              'a level iteration can append zero or several branch elements', wit, ctx.loc(bar, loop))
    shifts = [s for s in q.assigns(ctx, bar, 'index') if isinstance(s, ast.AugAssign) or
              (isinstance(s, ast.Assign))]
    shifts = [s for s in shifts if q.in_body(s, loop.body)]
    ok, wit = pr.once_per_iteration(cfg, loop, [cfg.node(s) for s in shifts])
    ctx.check(ok, 'C12.ONEAPPEND', ctx.key(bar, loop, 'index update'),
              'index is moved up exactly once per level', 'index is not moved up exactly once per level',
              wit, ctx.loc(bar, loop))
    reduces = [s for s in q.assigns(ctx, bar, HS) if q.in_body(s, loop.body)]
    ok, wit = pr.once_per_iteration(cfg, loop, [cfg.node(s) for s in reduces])
    ctx.check(ok, 'C12.ONEAPPEND', ctx.key(bar, loop, 'level reduction'),
              'the level is reduced exactly once per iteration', 'the level is not reduced exactly once per iteration',
              wit, ctx.loc(bar, loop))

    # TSCINDEP: index / hashes updates neither control- nor data-dependent on tsc_format
    tainted = df.forward_taint(bar, {'tsc_format'})
    hm = [q.stmt(c) for c in q.calls_named(ctx, bar, f'{HS}.append')]
    n_t = 0
    for s in shifts + reduces + hm:
        n_t += 1
        conds = pr.control_conditions(s, bar.node)
        ctl = [norm(t) for t, _b, _p in conds if df.names_loaded(t) & tainted]
        val = s.value if hasattr(s, 'value') else None
        dat = sorted(df.names_loaded(val) & tainted) if val is not None else []
        ctx.check(not ctl and not dat, 'C12.TSCINDEP', ctx.key(bar, s),
                  'update independent of tsc_format',
                  f'update depends on tsc_format (control: {ctl}, data: {dat})', loc=ctx.loc(bar, s))
    ctx.floor('C12.TSCINDEP', 3, n_t)

    # MARKER: a constant appended to the branch must be guarded by tsc_format
    n_m = 0
    for c in q.calls_named(ctx, bar, f'{BR}.append'):
        if c.args and isinstance(c.args[0], ast.Constant):
            n_m += 1
            s = q.stmt(c)
            conds = pr.control_conditions(s, bar.node)
            guarded = any(b and any(df.names_loaded(cj) & {'tsc_format'} and isinstance(cj, ast.Name)
                                    for cj in pr.conjuncts(t)) for t, b, _p in conds)
            ctx.check(guarded, 'C12.MARKER', ctx.key(bar, s),
                      'duplicate marker appended only when tsc_format holds',
                      'a constant marker can enter a classic (non-TSC) branch', loc=ctx.loc(bar, s))
    ctx.floor('C12.MARKER', 1, n_m)
    return 3 + n_t + n_m


def rule_align(ctx):
    # ALIGN: MerkleCache writes self.level[...] only at positions `X >> self.depth_higher` with X from _leaf_start
    n_a = 0
    for name in ('MerkleCache._extend_to', 'MerkleCache.truncate'):
        f = ctx.func('merkle', name)
        d = df.defs(f)
        for s in f.own_nodes():
            if isinstance(s, ast.Assign) and isinstance(s.targets[0], ast.Subscript):
                t = s.targets[0]
                if ctx.res.canon(t.value, f) != 'self.level':
                    continue
                n_a += 1
                sl = t.slice
                okk = False
                why = 'slice lower bound is not `<aligned> >> self.depth_higher`'
                if isinstance(sl, ast.Slice) and sl.upper is None and isinstance(sl.lower, ast.BinOp) \
                        and isinstance(sl.lower.op, ast.RShift) \
                        and ctx.res.canon(sl.lower.right, f) == 'self.depth_higher' \
                        and isinstance(sl.lower.left, ast.Name):
                    v = sl.lower.left.id
                    # every definition of v that reaches here must be a _leaf_start(...) call; for the
                    # parameter-shadowing form in truncate the last definition before s counts
                    cands = [rhs for st, rhs in d.get(v, []) if st.lineno < s.lineno]
                    if cands:
                        rhs = cands[-1]
                        if isinstance(rhs, ast.Call) and q.callee_name(ctx, f, rhs) == 'self._leaf_start':
                            okk = True
                        else:
                            why = f'{v} is not the result of self._leaf_start(...) (got {norm(rhs)})'
                    else:
                        why = f'{v} is not aligned with self._leaf_start(...) before the write'
                ctx.check(okk, 'C12.ALIGN', ctx.key(f, s), 'level written at a segment-aligned position', why,
                          loc=ctx.loc(f, s))
    return n_a


def rule_truncate_noop(ctx):
    """truncate() may skip the cut only when the requested length itself (not an aligned value) is >= the cached length:
    a cut point inside the final partial segment must still drop that segment's level entry."""
    f = ctx.func('merkle', 'MerkleCache.truncate')
    p = f.params[1]
    rets = [s for s in f.own_nodes() if isinstance(s, ast.Return) and s.value is None]
    n = 0
    for r in rets:
        conds = pr.control_conditions(r, f.node)
        ok = False
        why = 'early return without a recognisable guard'
        if len(conds) == 1 and conds[0][1]:
            cn = q.comparison_normal(ctx, f, conds[0][0])
            rebound = [s for s in q.assigns(ctx, f, p) if s.lineno < conds[0][2].lineno]
            ok = cn is not None and cn[1] == '>=' and q.lin_eq(cn[0], {p: 1, 'self.length': -1, '': 0}) and not rebound
            why = f'early return under `{norm(conds[0][0])}`' + (f' after {p} was re-assigned by `{norm(rebound[0])}`' if rebound else '')
        ctx.check(ok, 'C12.ALIGN', ctx.key(f, r, 'no-op condition'),
                  'the cut is skipped only when the requested length is >= the cached length',
                  'the cut can be skipped for a requested length below the cached length (' + why +
                  '): the stale level entry of the final partial segment survives a reorganisation', loc=ctx.loc(f, r))
        n += 1
    # length and level are cut together
    ls = q.assigns(ctx, f, 'self.length')
    lv = [s for s in f.own_nodes() if isinstance(s, ast.Assign) and isinstance(s.targets[0], ast.Subscript)
          and ctx.res.canon(s.targets[0].value, f) == 'self.level']
    cfg = ctx.cfg(f)
    ok = len(ls) == 1 and len(lv) == 1
    if ok:
        a, b = cfg.node(ls[0]), cfg.node(lv[0])
        ok = pr.path_avoiding(cfg, [a], [cfg.exit], {b}) is None and pr.path_avoiding(cfg, [cfg.entry], [b], {a}) is None
    ctx.check(ok, 'C12.ALIGN', ctx.key(f, None, 'length and level cut together'),
              'length and level are reduced on the same paths', 'length and level are not reduced together', loc=ctx.loc(f, f.node))
    return n + 1


def rule_tscforward(ctx, rule='C12.TSCFORWARD'):
    """Every nested branch computation receives the caller's tsc_format (the TSC form may differ from the classic
    one only by the marker, at every level of the composition)."""
    n = 0
    for f in ctx.repo.funcs.values():
        if 'tsc_format' not in f.params + f.kwonly:
            continue
        for c in q.own_calls(f):
            callee = ctx.res.resolve_ref(c.func, f)
            if callee is None or 'tsc_format' not in callee.params + callee.kwonly:
                continue
            n += 1
            passed = None
            for kw in c.keywords:
                if kw.arg == 'tsc_format':
                    passed = kw.value
            if passed is None and 'tsc_format' in callee.params:
                idx = callee.params.index('tsc_format') - (1 if callee.cls and callee.parent is None else 0)
                if 0 <= idx < len(c.args):
                    passed = c.args[idx]
            ctx.check(passed is not None and norm(passed) == 'tsc_format', rule, ctx.key(f, q.stmt(c)),
                      f'tsc_format forwarded to {callee.qual}',
                      f'{callee.qual} is called without the caller\'s tsc_format '
                      f'({"passes " + norm(passed) if passed is not None else "default used"}): '
                      'that part of the branch is computed in the other format', loc=ctx.loc(f, c))
    return n


def run(ctx):
    ctx.rule('C12.INT', lambda: rule_int_all(ctx), 2)
    ctx.rule('C12.ONEAPPEND', lambda: rule_branch_loop(ctx), 7)
    ctx.rule('C12.ALIGN', lambda: rule_align(ctx) + rule_truncate_noop(ctx), 4)
    ctx.rule('C12.TSCFORWARD', lambda: rule_tscforward(ctx), 5)
