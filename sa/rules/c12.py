'''C12 - merkle library agrees with the definition (thin static part).

Decided: INT (branch length / tree depth computed in exact integer arithmetic), ONEAPPEND (one branch
element, one index shift, one level reduction per level on every path), TSCINDEP (classic and TSC runs
take the same index/hash updates), MARKER (the '*' marker is appended only under tsc_format), ALIGN
(the cache writes its level only at segment-aligned positions).
Not decided: that a branch folds to the root, equality with a from-scratch computation (numeric).
'''
import ast

from ..model import norm, walk_own, AnalysisError, const_value
from .. import q, pathrules as pr, dataflow as df

EXPLANATION = ('static necessary conditions of C12 on electrumx/lib/merkle.py: exact-integer branch length, '
               'one append / one shift / one reduction per tree level on every CFG path, TSC independence of '
               'the index and hash updates, marker only under tsc_format, segment-aligned cache writes. '
               'Does NOT decide that branches fold to the root or equal a from-scratch computation.')
ASSUMPTIONS = ['python int operations (+,-,*,//,%,<<,>>,&,|,^,bit_length) are exact',
               'float routes (math.log/ceil/sqrt, /, float()) are inexact above 2**53']

FLOAT_CALLS = {'log', 'log2', 'log10', 'ceil', 'floor', 'sqrt', 'float', 'pow', 'round', 'exp', 'fsum', 'trunc'}


def float_constructs(exprs):
    bad = []
    for e in exprs:
        for n in walk_own(e):
            if isinstance(n, ast.Call):
                name = norm(n.func).split('.')[-1]
                if name in FLOAT_CALLS:
                    bad.append(n)
            elif isinstance(n, ast.BinOp) and isinstance(n.op, ast.Div):
                bad.append(n)
            elif isinstance(n, ast.BinOp) and isinstance(n.op, ast.Pow):
                ex = const_value(n.right)
                if not (isinstance(ex, int) and ex >= 0):
                    bad.append(n)
            elif isinstance(n, ast.Constant) and isinstance(n.value, float):
                bad.append(n)
    return bad


def rule_int(ctx, func, rule='C12.INT'):
    rets = [n for n in func.own_nodes() if isinstance(n, ast.Return) and n.value is not None]
    n_checked = 0
    for r in rets:
        exprs, _names = df.backward_slice(func, r.value)
        bad = float_constructs(exprs)
        n_checked += 1
        ctx.check(not bad, rule, ctx.key(func, r),
                  'return value computed with integer operations only',
                  'integer result routed through floating point: ' + ', '.join(norm(b) for b in bad),
                  witness=[f'{ctx.loc(func, b)} {norm(b)}' for b in bad], loc=ctx.loc(func, r))
    return n_checked


def rule_int_all(ctx):
    merkle_bl = ctx.func('merkle', 'Merkle.branch_length')
    merkle_td = ctx.func('merkle', 'Merkle.tree_depth')
    n = rule_int(ctx, merkle_bl) + rule_int(ctx, merkle_td)

    # positive control: the rule must report the float route in the fixture
    from ..selfcheck import fixture_ctx
    fx = fixture_ctx('merkle_float.py')
    fxf = fx.repo.func('fixture', 'branch_length_float')
    got = rule_int(fx, fxf, 'C12.INT')
    if not any(o.verdict == 'violated' for o in fx.obligations):
        raise AnalysisError('positive control failed: C12.INT did not report the float fixture')
    ctx.note('positive control C12.INT: fixture merkle_float.py reported as expected')
    return n


def rule_branch_loop(ctx):
    # ONEAPPEND / TSCINDEP / MARKER on branch_and_root
    bar = ctx.func('merkle', 'Merkle.branch_and_root')
    cfg = ctx.cfg(bar)
    rets_ = [r for r in bar.own_nodes() if isinstance(r, ast.Return) and isinstance(r.value, ast.Tuple) and len(r.value.elts) == 2
             and isinstance(r.value.elts[0], ast.Name)]
    if len(rets_) != 1:
        raise AnalysisError('Merkle.branch_and_root: expected `return <branch list>, <root>`')
    BR = rets_[0].value.elts[0].id
    HS = norm(rets_[0].value.elts[1].value) if isinstance(rets_[0].value.elts[1], ast.Subscript) else 'hashes'
    loops = [s for s in bar.own_nodes() if isinstance(s, (ast.For, ast.While))
             and any(isinstance(c, ast.Call) and q.callee_name(ctx, bar, c) == f'{BR}.append'
                     for c in walk_own(s))]
    loops = [l for l in loops if not any(isinstance(a, (ast.For, ast.While)) and a is not l and
                                         any(x is l for x in ast.walk(a)) for a in loops)]
    if not loops:
        raise AnalysisError('Merkle.branch_and_root: expected a level loop appending to branch')
    loops.sort(key=lambda l: l.lineno)
    loop = loops[0]
    # a second loop that adds levels (natural levels first, padding levels after) is held to the same statement: a padding
    # level is a single node paired with itself - always a duplicate - so under tsc_format its branch element is the marker
    from .. import paths as P_
    for extra in loops[1:]:
        marks = False
        for pth in P_.paths(extra.body):
            for st_, _env in pth.events:
                if isinstance(st_, ast.Expr) and isinstance(st_.value, ast.Call) and q.callee_name(ctx, bar, st_.value) == f'{BR}.append' \
                        and st_.value.args and isinstance(st_.value.args[0], ast.Constant):
                    if any('tsc_format' in df.names_loaded(t) and pol for t, pol, _n in pth.conds if isinstance(t, ast.expr)):
                        marks = True
                elif isinstance(st_, ast.Expr) and isinstance(st_.value, ast.Call) and q.callee_name(ctx, bar, st_.value) == f'{BR}.append' \
                        and st_.value.args and isinstance(st_.value.args[0], ast.IfExp) and 'tsc_format' in df.names_loaded(st_.value.args[0].test):
                    marks = True
        ctx.check(marks, 'C12.MARKER', ctx.key(bar, extra, 'further level loop'),
                  'a further loop adding levels to the branch decides the TSC duplicate marker as well',
                  'a further loop appends levels to the branch without ever appending the TSC duplicate marker: the levels it adds (above '
                  'the natural tree every node is paired with itself) come out as hashes in TSC format', loc=ctx.loc(bar, extra))
    appends = [q.stmt(c) for c in q.calls_named(ctx, bar, f'{BR}.append')]
    ok, wit = pr.once_per_iteration(cfg, loop, [cfg.node(s) for s in appends])
    ctx.check(ok, 'C12.ONEAPPEND', ctx.key(bar, loop, 'branch.append'),
              'every level iteration appends exactly one branch element on every path',
              'a level iteration can append zero or several branch elements', wit, ctx.loc(bar, loop))
    shifts = [s for s in q.assigns(ctx, bar, 'index') if isinstance(s, ast.AugAssign) or
              (isinstance(s, ast.Assign))]
    shifts = [s for s in shifts if q.in_body(s, loop.body)]
    ok, wit = pr.once_per_iteration(cfg, loop, [cfg.node(s) for s in shifts])
    ctx.check(ok, 'C12.ONEAPPEND', ctx.key(bar, loop, 'index update'),
              'index is moved up exactly once per level', 'index is not moved up exactly once per level',
              wit, ctx.loc(bar, loop))
    reduces = [s for s in q.assigns(ctx, bar, HS) if q.in_body(s, loop.body)]
    ok, wit = pr.once_per_iteration(cfg, loop, [cfg.node(s) for s in reduces])
    ctx.check(ok, 'C12.ONEAPPEND', ctx.key(bar, loop, 'level reduction'),
              'the level is reduced exactly once per iteration', 'the level is not reduced exactly once per iteration',
              wit, ctx.loc(bar, loop))

    # TSCINDEP: index / hashes updates neither control- nor data-dependent on tsc_format
    tainted = df.forward_taint(bar, {'tsc_format'})
    hm = [q.stmt(c) for c in q.calls_named(ctx, bar, f'{HS}.append')]
    n_t = 0
    for s in shifts + reduces + hm:
        n_t += 1
        conds = pr.control_conditions(s, bar.node)
        ctl = [norm(t) for t, _b, _p in conds if df.names_loaded(t) & tainted]
        val = s.value if hasattr(s, 'value') else None
        dat = sorted(df.names_loaded(val) & tainted) if val is not None else []
        ctx.check(not ctl and not dat, 'C12.TSCINDEP', ctx.key(bar, s),
                  'update independent of tsc_format',
                  f'update depends on tsc_format (control: {ctl}, data: {dat})', loc=ctx.loc(bar, s))
    ctx.floor('C12.TSCINDEP', 3, n_t)

    from .c03 import expand_locals as expand_locals_
    # MARKER: a constant appended to the branch must be guarded by tsc_format, and the rest of its condition must be
    # evaluated per level (index and the level list change every iteration)
    n_m = 0
    d = df.defs(bar)
    varying = set()
    for x in walk_own(loop):
        if isinstance(x, (ast.Assign, ast.AugAssign)):
            for t in (x.targets if isinstance(x, ast.Assign) else [x.target]):
                varying |= {n_.id for n_ in ast.walk(t) if isinstance(n_, ast.Name)}
        if isinstance(x, ast.Call) and isinstance(x.func, ast.Attribute) and x.func.attr in ('append', 'extend', 'pop') \
                and isinstance(x.func.value, ast.Name):
            varying.add(x.func.value.id)

    def cond_sites(call):
        """[(constant node, [(test, polarity)])] for constants that can be the appended value."""
        out = []
        base = [(t, b) for t, b, _p in pr.control_conditions(q.stmt(call), bar.node)]

        def go(e, conds):
            if isinstance(e, ast.Constant):
                out.append((e, conds))
            elif isinstance(e, ast.IfExp):
                go(e.body, conds + [(e.test, True)])
                go(e.orelse, conds + [(e.test, False)])
        if call.args:
            go(call.args[0], base)
        return out

    def stale_names(test, depth=0):
        """locals read by the test whose value was fixed before the level loop although it depends on per-level state"""
        bad = []
        for nm in sorted(df.names_loaded(test)):
            if nm in varying:
                continue      # re-assigned every level: the value read is this level's
            for st, rhs in d.get(nm, []):
                if rhs is None:
                    continue
                if not q.in_body(st, loop.body):
                    if df.names_loaded(rhs) & varying:
                        bad.append(f'{nm} (= {norm(rhs)[:50]}, line {int(round(st.lineno))}, outside the level loop)')
                elif depth < 3:
                    bad += stale_names(rhs, depth + 1)
        return bad

    def reads(test, depth=0):
        out = set(df.names_loaded(test))
        if depth < 3:
            for nm in list(out):
                for st, rhs in d.get(nm, []):
                    if rhs is not None:
                        out |= reads(rhs, depth + 1)
        return out
    # decided per path through one level iteration, tests expressed in the values at the start of the iteration (a flag
    # computed first, nested or merged ifs, a conditional expression as the argument: all the same)
    from .. import paths as P
    verdicts = {}
    for pth in P.paths(loop.body):
        for st_, env_ in pth.events:
            if not (isinstance(st_, ast.Expr) and isinstance(st_.value, ast.Call) and q.callee_name(ctx, bar, st_.value) == f'{BR}.append' and st_.value.args):
                continue
            taken = [(t, pol) for t, pol, _n in pth.conds if isinstance(t, ast.expr)]

            def consts(e, conds):
                if isinstance(e, ast.Constant):
                    yield e, conds
                elif isinstance(e, ast.IfExp):
                    t_ = P.subst(e.test, env_)
                    dec = next((pol for t2, pol in taken if norm(t2) == norm(t_)), None)
                    if dec is not False:
                        yield from consts(e.body, conds + [(t_, True)])
                    if dec is not True:
                        yield from consts(e.orelse, conds + [(t_, False)])
            for const, conds in consts(st_.value.args[0], taken):
                pos = [t for t, b_ in conds if b_]
                allr = set()
                for t in pos:
                    allr |= reads(t)
                guarded = 'tsc_format' in allr
                stale = [x for t, _b in conds for x in stale_names(t)]
                perlevel = {'index', HS} <= allr
                # ... and by POSITION: the duplicated node is the last of an odd-width level, whatever the hash values are
                expanded = ' '.join(norm(expand_locals_(bar, t)) for t in pos)
                positional = f'len({HS})' in expanded and not any(
                    isinstance(c_, ast.Compare) and all(isinstance(x_, ast.Subscript) and norm(x_.value) == HS for x_ in [c_.left] + c_.comparators)
                    for t in pos for c_ in ast.walk(expand_locals_(bar, t)))
                perlevel = perlevel and positional
                why = ('a constant marker can enter a classic (non-TSC) branch' if not guarded else
                       'the marker decision uses a value fixed before the level loop: ' + '; '.join(stale) if stale else
                       'the marker decision is not a test of this level\'s index against its width (a comparison of hash values marks a genuine sibling that happens to be equal)')
                k_ = (id(st_), norm(const))
                prev = verdicts.get(k_)
                good = guarded and not stale and perlevel
                verdicts[k_] = (st_, const, (prev[2] if prev else True) and good, why if not good else (prev[3] if prev else why))
    for st_, const, good, why in verdicts.values():
        n_m += 1
        ctx.check(good, 'C12.MARKER', ctx.key(bar, st_, norm(const)),
                  'the duplicate marker is appended only when tsc_format holds and the node is the duplicated one of this level',
                  why, loc=ctx.loc(bar, st_))
    ctx.floor('C12.MARKER', 1, n_m)
    return 3 + n_t + n_m


def rule_align(ctx):
    # ALIGN: MerkleCache writes self.level[...] only at positions `X >> self.depth_higher` with X from _leaf_start
    n_a = 0
    for name in ('MerkleCache._extend_to', 'MerkleCache.truncate'):
        f = ctx.func('merkle', name)
        d = df.defs(f)
        for s in f.own_nodes():
            if isinstance(s, ast.Assign) and isinstance(s.targets[0], ast.Subscript):
                t = s.targets[0]
                if ctx.res.canon(t.value, f) != 'self.level':
                    continue
                n_a += 1
                sl = t.slice
                okk = False
                why = 'slice lower bound is not `<aligned> >> self.depth_higher`'
                if isinstance(sl, ast.Slice) and sl.upper is None and isinstance(sl.lower, ast.BinOp) \
                        and isinstance(sl.lower.op, ast.RShift) \
                        and ctx.res.canon(sl.lower.right, f) == 'self.depth_higher' \
                        and isinstance(sl.lower.left, ast.Name):
                    v = sl.lower.left.id
                    # every definition of v that reaches here must be a _leaf_start(...) call; for the
                    # parameter-shadowing form in truncate the last definition before s counts
                    cands = [rhs for st, rhs in d.get(v, []) if st.lineno < s.lineno]
                    if cands:
                        rhs = cands[-1]
                        if isinstance(rhs, ast.Call) and q.callee_name(ctx, f, rhs) == 'self._leaf_start':
                            okk = True
                        else:
                            why = f'{v} is not the result of self._leaf_start(...) (got {norm(rhs)})'
                    else:
                        why = f'{v} is not aligned with self._leaf_start(...) before the write'
                ctx.check(okk, 'C12.ALIGN', ctx.key(f, s), 'level written at a segment-aligned position', why,
                          loc=ctx.loc(f, s))
    return n_a


def rule_truncate_noop(ctx):
    """truncate() may skip the cut only when the requested length itself (not an aligned value) is >= the cached length:
    a cut point inside the final partial segment must still drop that segment's level entry."""
    f = ctx.func('merkle', 'MerkleCache.truncate')
    p = f.params[1]
    rets = [s for s in f.own_nodes() if isinstance(s, ast.Return) and s.value is None]
    n = 0
    for r in rets:
        conds = pr.silent_conditions(r, f.node)
        ok = False
        why = 'early return without a recognisable guard'
        if len(conds) == 1 and conds[0][1]:
            cn = q.comparison_normal(ctx, f, conds[0][0])
            rebound = [s for s in q.assigns(ctx, f, p) if s.lineno < conds[0][2].lineno]
            ok = cn is not None and cn[1] == '>=' and q.lin_eq(cn[0], {p: 1, 'self.length': -1, '': 0}) and not rebound
            why = f'early return under `{norm(conds[0][0])}`' + (f' after {p} was re-assigned by `{norm(rebound[0])}`' if rebound else '')
        ctx.check(ok, 'C12.ALIGN', ctx.key(f, r, 'no-op condition'),
                  'the cut is skipped only when the requested length is >= the cached length',
                  'the cut can be skipped for a requested length below the cached length (' + why +
                  '): the stale level entry of the final partial segment survives a reorganisation', loc=ctx.loc(f, r))
        n += 1
    # the same decision spelt as a guarded cut: every condition on the cut must be `length < self.length` on the raw argument
    for cut in [s for s in q.assigns(ctx, f, 'self.length')]:
        for t_, b_, p_ in pr.silent_conditions(cut, f.node):
            if isinstance(p_, ast.With):
                continue
            cn = q.comparison_normal(ctx, f, t_ if b_ else ast.UnaryOp(op=ast.Not(), operand=t_))
            rebound = [s for s in q.assigns(ctx, f, p) if s.lineno < p_.lineno]
            okc = cn is not None and not rebound and (
                (cn[1] == '>' and q.lin_eq(cn[0], {'self.length': 1, p: -1, '': 0})) or
                (cn[1] == '<' and q.lin_eq(cn[0], {p: 1, 'self.length': -1, '': 0})))
            ctx.check(okc, 'C12.ALIGN', ctx.key(f, cut, 'cut condition'),
                      'the cut is made exactly when the requested length is below the cached length',
                      f'the cut is conditional on `{norm(t_)}` ({"taken" if b_ else "not taken"}), which is not `{p} < self.length` on the '
                      'requested length', loc=ctx.loc(f, cut))
            n += 1
    # length and level are cut together
    ls = q.assigns(ctx, f, 'self.length')
    lv = [s for s in f.own_nodes() if isinstance(s, ast.Assign) and isinstance(s.targets[0], ast.Subscript)
          and ctx.res.canon(s.targets[0].value, f) == 'self.level']
    cfg = ctx.cfg(f)
    ok = len(ls) == 1 and len(lv) == 1
    if ok:
        a, b = cfg.node(ls[0]), cfg.node(lv[0])
        ok = pr.path_avoiding(cfg, [a], [cfg.exit], {b}) is None and pr.path_avoiding(cfg, [cfg.entry], [b], {a}) is None
    ctx.check(ok, 'C12.ALIGN', ctx.key(f, None, 'length and level cut together'),
              'length and level are reduced on the same paths', 'length and level are not reduced together', loc=ctx.loc(f, f.node))
    return n + 1


def rule_tscforward(ctx, rule='C12.TSCFORWARD'):
    """Every nested branch computation receives the caller's tsc_format (the TSC form may differ from the classic
    one only by the marker, at every level of the composition)."""
    n = 0
    for f in ctx.repo.funcs.values():
        if 'tsc_format' not in f.params + f.kwonly:
            continue
        for c in q.own_calls(f):
            callee = ctx.res.resolve_ref(c.func, f)
            if callee is None or 'tsc_format' not in callee.params + callee.kwonly:
                continue
            n += 1
            passed = None
            for kw in c.keywords:
                if kw.arg == 'tsc_format':
                    passed = kw.value
            if passed is None and 'tsc_format' in callee.params:
                idx = callee.params.index('tsc_format') - (1 if callee.cls and callee.parent is None else 0)
                if 0 <= idx < len(c.args):
                    passed = c.args[idx]
            ctx.check(passed is not None and norm(passed) == 'tsc_format', rule, ctx.key(f, q.stmt(c)),
                      f'tsc_format forwarded to {callee.qual}',
                      f'{callee.qual} is called without the caller\'s tsc_format '
                      f'({"passes " + norm(passed) if passed is not None else "default used"}): '
                      'that part of the branch is computed in the other format', loc=ctx.loc(f, c))
    return n


def rule_cache_commit(ctx, rule='C12.CACHE'):
    '''MerkleCache bookkeeping: level and length always describe the same prefix of the source.
      * initialize() rebuilds level and length from scratch for the new depth_higher;
      * an extension commits the level computed from hashes [start, L) together with length = L, for the same L;
      * everything the commit uses that was derived from the cache's fields is recomputed on every retry.'''
    n = 0
    ini = ctx.func('merkle', 'MerkleCache.initialize')
    icfg = ctx.cfg(ini)
    lp = ini.params[1]
    la = [s for s in q.assigns(ctx, ini, 'self.length') if isinstance(s, ast.Assign) and norm(s.value) == lp]
    lv = [s for s in q.assigns(ctx, ini, 'self.level') if isinstance(s, ast.Assign) and any(
        isinstance(c, ast.Call) and q.callee_name(ctx, ini, c) == 'self.source_func' and len(c.args) == 2
        and norm(c.args[0]) == '0' and norm(c.args[1]) == lp for c in ast.walk(s.value))]
    dh = [s for s in q.assigns(ctx, ini, 'self.depth_higher')]
    ok = bool(la) and bool(lv) and bool(dh)
    why = 'initialize does not rebuild ' + ', '.join(x for x, y in (('length', la), ('level', lv), ('depth_higher', dh)) if not y) + ' from scratch'
    if ok:
        for group in (la, lv, dh):
            if pr.path_avoiding(icfg, [icfg.entry], [icfg.exit], {icfg.node(s) for s in group}) is not None:
                ok, why = False, 'a path through initialize skips one of the three resets'
        # the level is computed under the new depth_higher
        if ok and not all(icfg.dominates(icfg.node(dh[0]), icfg.node(s)) for s in lv):
            ok, why = False, 'the level is computed before depth_higher is set for the new length'
    ctx.check(ok, rule, ctx.key(ini, None, 'rebuilds from scratch'),
              'initialize(length) sets length, depth_higher and a level recomputed from source_func(0, length)',
              why + ': entries computed for another depth_higher / an older source stay in the level list and later branches are '
              'folded from them', loc=ctx.loc(ini, ini.node))
    n += 1

    ext = ctx.func('merkle', 'MerkleCache._extend_to')
    ecfg = ctx.cfg(ext)
    L = ext.params[1]
    reads = [c for c in q.own_calls(ext) if q.callee_name(ctx, ext, c) == 'self.source_func' and len(c.args) == 2]
    lens = [s for s in q.assigns(ctx, ext, 'self.length')]
    lvls = [s for s in ext.own_nodes() if isinstance(s, ast.Assign) and isinstance(s.targets[0], ast.Subscript)
            and ctx.res.canon(s.targets[0].value, ext) == 'self.level']
    if len(reads) != 1 or len(lens) != 1 or len(lvls) != 1:
        raise AnalysisError('MerkleCache._extend_to: expected one source read, one level write and one length write')
    rd = reads[0]
    okl, whyl = False, ''
    try:
        end = q.linear(ctx, ext, ast.BinOp(left=rd.args[0], op=ast.Add(), right=rd.args[1]))
        okl = q.lin_eq(end, q.linear(ctx, ext, lens[0].value))
        whyl = f'hashes [{norm(rd.args[0])}, {norm(rd.args[0])} + {norm(rd.args[1])}) are read but length is set to `{norm(lens[0].value)}`'
    except q.NotLinear:
        whyl = f'length is set to `{norm(lens[0].value)}`, which is not the end of the range that was read'
    ctx.check(okl, rule, ctx.key(ext, lens[0], 'length = end of the range read'),
              'the committed length is the end of the hash range the committed level was computed from',
              whyl + ': level and length then describe different prefixes (a concurrent, longer extension committed first)',
              loc=ctx.loc(ext, lens[0]))
    n += 1
    # an extension only ever grows the cache: a commit that does not exceed the current length is dropped.  Overlapping
    # requests extend to different lengths; the shorter one committing last would shrink the cache under the longer one,
    # whose _level_for() then slices a level that is too short (no truncation happened, so nothing is redone)
    grows = False
    for t_, b_, _p in pr.control_conditions(lens[0], ext.node):
        for cj in (pr.conjuncts(t_) if b_ else []):
            if q.cmp_matches(ctx, ext, cj, f'{L} > self.length'):
                grows = True
    locked = any(isinstance(p_, ast.With) and any(ctx.res.canon(i.context_expr, ext) == 'self.lock' for i in p_.items)
                 for p_, _f in q.enclosing_chain(lens[0], ext.node))
    ctx.check(grows and locked, rule, ctx.key(ext, lens[0], 'commit only grows the cache'),
              'the commit is made only when it exceeds the current length (tested under the lock)',
              'the commit is not conditional on `length > self.length`: of two overlapping extensions the shorter one, committing '
              'last, shrinks the cache under the request that relies on the greater length - its branch folds to a wrong root',
              loc=ctx.loc(ext, lens[0]))
    n += 1
    # the slice start of the level write corresponds to the start of the range read
    sl = lvls[0].targets[0].slice
    oks = isinstance(sl, ast.Slice) and sl.upper is None and sl.lower is not None and \
        norm(sl.lower).replace(' ', '') == f'{norm(rd.args[0])}>>self.depth_higher'.replace(' ', '')
    ctx.check(oks, rule, ctx.key(ext, lvls[0], 'level tail replaced from the start of the range read'),
              'the level tail is replaced from the entry that corresponds to the first hash read',
              f'the level write `{norm(lvls[0].targets[0])}` does not start at the entry of the first hash read (`{norm(rd.args[0])}`)',
              loc=ctx.loc(ext, lvls[0]))
    n += 1
    # retry discipline: locals used by the commit that derive from cache fields are re-derived inside the retry loop
    loops = [p for p, _f in q.enclosing_chain(lvls[0], ext.node) if isinstance(p, ast.While)]
    d = df.defs(ext)
    if loops:
        lp_ = loops[0]
        used = set()
        for s in (lvls[0], lens[0], q.stmt(rd)):
            used |= df.names_loaded(s)
        stale = []
        seen = set()
        work = sorted(used)
        while work:
            nm = work.pop()
            if nm in seen or nm in ext.params:
                continue
            seen.add(nm)
            for st, rhs in d.get(nm, []):
                if rhs is None:
                    continue
                reads_state = any(isinstance(a, ast.Attribute) and isinstance(a.value, ast.Name) and a.value.id == 'self'
                                  and a.attr in ('length', 'level', 'truncations') for a in ast.walk(rhs))
                if not q.in_body(st, lp_.body):
                    if reads_state:
                        stale.append(f'{nm} = {norm(rhs)[:50]} (line {int(round(st.lineno))})')
                else:
                    work += sorted(df.names_loaded(rhs))
        ctx.check(not stale, rule, ctx.key(ext, lp_, 'retry re-derives from the cache state'),
                  'everything the commit uses that depends on length / level / the epoch is recomputed on every retry',
                  'derived before the retry loop and reused after a truncation: ' + '; '.join(stale) +
                  ' - the retry then reads and writes from an offset beyond the truncated cache', loc=ctx.loc(ext, lp_))
        n += 1
    return n


def run(ctx):
    ctx.rule('C12.CACHE', lambda: rule_cache_commit(ctx), 4)
    ctx.rule('C12.OWNCOPY', lambda: rule_own_copy(ctx), 1)
    ctx.rule('C12.FIELDS', lambda: rule_cache_fields(ctx), 2)
    ctx.rule('C12.INITFIRST', lambda: rule_init_first(ctx), 1)
    ctx.rule('C12.STALELOCAL', lambda: rule_stale_local(ctx), 2)
    from . import c11 as _c11
    ctx.rule('C12.EXTEND', lambda: _c11.rule_extend(ctx), 5)
    ctx.rule('C11.RETRYRAISE', lambda: _c11.rule_retry_raise(ctx), 2)
    ctx.rule('C12.TRUNCATE', lambda: _c11.rule_truncate(ctx, 'C12.TRUNCATE'), 2)
    ctx.rule('C12.INT', lambda: rule_int_all(ctx), 2)
    ctx.rule('C12.ONEAPPEND', lambda: rule_branch_loop(ctx), 7)
    ctx.rule('C12.ALIGN', lambda: rule_align(ctx) + rule_truncate_noop(ctx), 3)
    ctx.rule('C12.TSCFORWARD', lambda: rule_tscforward(ctx), 5)


def rule_own_copy(ctx, rule='C12.OWNCOPY'):
    '''Merkle's functions pad the level in place (hashes.append(hashes[-1])).  The list they pad must be their own copy:
    callers hand in lists they keep (MerkleCache.level, a session's cached tx hashes), and a padded entry left behind
    changes every later answer computed from that list.'''
    rel = ctx.repo.path('merkle')
    n = 0
    MUT = ('append', 'extend', 'insert', 'pop', 'remove', 'clear', 'reverse', 'sort')
    for f in ctx.repo.funcs.values():
        if f.unit.relpath != rel or f.cls != 'Merkle':
            continue
        cfg = ctx.cfg(f)
        for p_ in f.params[1:]:
            muts = []
            for x in f.own_nodes():
                if isinstance(x, ast.Call) and isinstance(x.func, ast.Attribute) and x.func.attr in MUT \
                        and isinstance(x.func.value, ast.Name) and x.func.value.id == p_:
                    muts.append(q.stmt(x))
                if isinstance(x, (ast.Assign, ast.AugAssign, ast.Delete)):
                    for t in (x.targets if not isinstance(x, ast.AugAssign) else [x.target]):
                        if isinstance(t, ast.Subscript) and isinstance(t.value, ast.Name) and t.value.id == p_:
                            muts.append(x)
                if isinstance(x, ast.AugAssign) and isinstance(x.target, ast.Name) and x.target.id == p_ \
                        and isinstance(x.op, ast.Add) and isinstance(x.value, (ast.List, ast.ListComp)):
                    muts.append(x)        # `hashes += [...]` extends a list in place
            if not muts:
                continue
            n += 1
            # fresh rebinding: p = list(p) / [..] / p[:] / comprehension, unconditional (dominates every mutation)
            fresh = []
            for s_ in f.own_nodes():
                if isinstance(s_, ast.Assign) and len(s_.targets) == 1 and isinstance(s_.targets[0], ast.Name) and s_.targets[0].id == p_:
                    v = s_.value
                    if (isinstance(v, ast.Call) and norm(v.func) in ('list', 'sorted') and len(v.args) >= 1) or \
                            isinstance(v, (ast.List, ast.ListComp)) or \
                            (isinstance(v, ast.Subscript) and isinstance(v.slice, ast.Slice)) or \
                            (isinstance(v, ast.BinOp) and isinstance(v.op, ast.Add)):
                        fresh.append(s_)
            bad = [m for m in muts if not any(cfg.dominates(cfg.node(fr_), cfg.node(m)) for fr_ in fresh)]
            ctx.check(not bad, rule, ctx.key(f, None, f'{p_} copied before it is padded'),
                      f'`{p_}` is re-bound to a fresh list on every path before it is modified in place',
                      f'`{p_}` can be modified in place ({", ".join(norm(b)[:40] for b in bad[:2])}) while it is still the caller\'s list: '
                      'the caller\'s cached level / tx-hash list keeps the padding entry and later branches (TSC marking, index range) differ',
                      loc=ctx.loc(f, bad[0] if bad else f.node))
    return n


def rule_cache_fields(ctx, rule='C12.FIELDS'):
    '''Everything MerkleCache remembers about the source between calls is cut by truncate(): a field written by the
    extending / answering methods but not by truncate() keeps hashes of the abandoned chain.'''
    rel = ctx.repo.path('merkle')
    written = {}
    for f in ctx.repo.funcs.values():
        if f.unit.relpath != rel or f.cls != 'MerkleCache':
            continue
        for s_ in f.own_nodes():
            tg = s_.targets if isinstance(s_, ast.Assign) else [s_.target] if isinstance(s_, (ast.AugAssign, ast.AnnAssign)) else []
            if isinstance(s_, ast.AugAssign) and isinstance(s_.value, ast.Constant) and isinstance(s_.value.value, (int, float)) \
                    and f.name != 'truncate':
                continue            # a statistics counter remembers nothing about the source
            for t in tg:
                for e in (t.elts if isinstance(t, ast.Tuple) else [t]):
                    b = e
                    while isinstance(b, ast.Subscript):
                        b = b.value
                    if isinstance(b, ast.Attribute) and isinstance(b.value, ast.Name) and b.value.id == 'self':
                        written.setdefault(b.attr, set()).add(f.name)
            if isinstance(s_, ast.Call) and isinstance(s_.func, ast.Attribute) and s_.func.attr in (
                    'append', 'extend', 'update', 'add', 'setdefault', 'insert', 'pop', 'clear') \
                    and isinstance(s_.func.value, ast.Attribute) and isinstance(s_.func.value.value, ast.Name) \
                    and s_.func.value.value.id == 'self':
                written.setdefault(s_.func.value.attr, set()).add(f.name)
    n = 0
    for fld, fs in sorted(written.items()):
        dyn = fs - {'__init__', 'initialize', 'truncate'}
        if not dyn:
            continue        # set at construction / initialisation only (depth_higher): not data about the source's tail
        n += 1
        ctx.check('truncate' in fs, rule, f'{rel} :: MerkleCache :: self.{fld} cut by truncate',
                  f'self.{fld} (written by {sorted(dyn)}) is also cut back by truncate()',
                  f'self.{fld} is written by {sorted(dyn)} but never by truncate(): what it remembers about hashes beyond a '
                  'truncation point survives the truncation and is served afterwards')
    return n


def rule_init_first(ctx, rule='C12.INITFIRST'):
    '''branch_and_root reads nothing of the cache before the initialised event has been waited for: depth_higher, length
    and level are placeholders until initialize() has run.'''
    f = ctx.func('merkle', 'MerkleCache.branch_and_root')
    cfg = ctx.cfg(f)
    waits = [q.stmt(c) for c in q.own_calls(f) if q.callee_name(ctx, f, c) == 'self.initialized.wait']
    if len(waits) != 1:
        raise AnalysisError('MerkleCache.branch_and_root: expected one `await self.initialized.wait()`')
    wn = cfg.node(waits[0])
    early = []
    for st in f.own_nodes():
        if not isinstance(st, ast.stmt) or st is waits[0]:
            continue
        try:
            sn = cfg.node(st)
        except Exception:
            continue
        from ..cfg import head_exprs
        reads_cache = False
        for e in head_exprs(st):
            for a in ast.walk(e):
                if isinstance(a, ast.Attribute) and isinstance(a.value, ast.Name) and a.value.id == 'self' \
                        and a.attr not in ('initialized', 'merkle'):
                    reads_cache = True
        if reads_cache and not cfg.dominates(wn, sn):
            early.append(st)
    ctx.check(not early, rule, ctx.key(f, waits[0], 'nothing read before initialisation'),
              'every read of the cache\'s fields (and every call of its helpers) comes after the wait for initialisation',
              'the cache is consulted before initialize() may have run: ' + '; '.join(f'line {int(round(e.lineno))} `{norm(e)[:50]}`' for e in early[:2]) +
              ' - computed with depth_higher == 0 / an empty level, then used after the wait', loc=ctx.loc(f, early[0] if early else f.node))
    return 1



def rule_stale_local(ctx, rule='C12.STALELOCAL'):
    """In MerkleCache.branch_and_root nothing derived from the cache's fields is carried across a suspension: another
    request may extend the cache in place while this one waits (no truncation, so the epoch re-check does not help), and
    _level_for() can return self.level itself.  Locals whose defining expression reads the cache (self.<field>, a helper
    of the cache) must be used before the next suspension.  The epoch snapshot is exempt: being stale is its purpose."""
    from ..suspend import Suspension
    sus = Suspension(ctx)
    f = ctx.func('merkle', 'MerkleCache.branch_and_root')
    cfg = ctx.cfg(f)
    d = df.defs(f)
    epoch_snaps = {s_.targets[0].id for s_ in f.own_nodes() if isinstance(s_, ast.Assign) and isinstance(s_.targets[0], ast.Name)
                   and ctx.res.canon(s_.value, f) == 'self.truncations'}
    n = 0
    susp_nodes = []
    for m in cfg.g.nodes:
        a = cfg.ast(m)
        if a is not None and cfg.kind(m) not in ('with_exit', 'finally') and sus.stmt_suspends(a, f):
            susp_nodes.append(m)
    bad = []
    for name, sites in d.items():
        if name in epoch_snaps or name in f.params:
            continue
        for st, rhs in sites:
            if rhs is None or not isinstance(st, ast.Assign):
                continue
            root = rhs.value if isinstance(rhs, ast.Await) else rhs
            if isinstance(root, ast.Call):
                root = root.func
            while isinstance(root, ast.Attribute) and not (isinstance(root.value, ast.Name) and root.value.id == 'self'):
                root = root.value
            derived = isinstance(root, ast.Attribute) and isinstance(root.value, ast.Name) and root.value.id == 'self' \
                and root.attr not in ('merkle', 'initialized', 'source_func')
            if not derived:
                continue
            n += 1
            dn = cfg.node(st)
            for m in cfg.g.nodes:
                a = cfg.ast(m)
                if a is None or m == dn or cfg.kind(m) in ('with_exit', 'finally'):
                    continue
                from ..defassign import _loads
                if not any(x.id == name for x in _loads(a)):
                    continue
                for sp in susp_nodes:
                    if sp == dn or sp == m:
                        continue
                    alld = {cfg.node(s2) for s2, _r in sites}
                    if cfg.find_path([dn], {sp}, avoiding=alld - {dn}) is not None and cfg.find_path([sp], {m}, avoiding=alld) is not None:
                        bad.append(f'`{name}` (line {int(round(st.lineno))}: {norm(rhs)[:40]}) is used at line {int(round(a.lineno))} after the suspension at line {cfg.ast(sp).lineno}')
                        break
    ctx.check(not bad, rule, ctx.key(f, None, 'cache-derived locals not carried across a suspension'),
              'every local computed from the cache is used before the next suspension point',
              '; '.join(sorted(set(bad))[:2]) + ': another request can extend the cache in place meanwhile (_level_for may return '
              'self.level itself), so the value no longer matches the length this request asked for', loc=ctx.loc(f, f.node))
    return max(n, 1) + 1
