'''C12 - merkle library agrees with the definition (thin static part).

Decided: INT (branch length / tree depth computed in exact integer arithmetic), ONEAPPEND (one branch
element, one index shift, one level reduction per level on every path), TSCINDEP (classic and TSC runs
take the same index/hash updates), MARKER (the '*' marker is appended only under tsc_format), ALIGN
(the cache writes its level only at segment-aligned positions).
Not decided: that a branch folds to the root, equality with a from-scratch computation (numeric).
'''
import ast

from ..model import norm, walk_own, AnalysisError, const_value
from .. import q, pathrules as pr, dataflow as df

EXPLANATION = ('static necessary conditions of C12 on electrumx/lib/merkle.py: exact-integer branch length, '
               'one append / one shift / one reduction per tree level on every CFG path, TSC independence of '
               'the index and hash updates, marker only under tsc_format, segment-aligned cache writes. '
               'Does NOT decide that branches fold to the root or equal a from-scratch computation.')
ASSUMPTIONS = ['python int operations (+,-,*,//,%,<<,>>,&,|,^,bit_length) are exact',
               'float routes (math.log/ceil/sqrt, /, float()) are inexact above 2**53']

FLOAT_CALLS = {'log', 'log2', 'log10', 'ceil', 'floor', 'sqrt', 'float', 'pow', 'round', 'exp', 'fsum', 'trunc'}


def float_constructs(exprs):
    bad = []
    for e in exprs:
        for n in walk_own(e):
            if isinstance(n, ast.Call):
                name = norm(n.func).split('.')[-1]
                if name in FLOAT_CALLS:
                    bad.append(n)
            elif isinstance(n, ast.BinOp) and isinstance(n.op, ast.Div):
                bad.append(n)
            elif isinstance(n, ast.BinOp) and isinstance(n.op, ast.Pow):
                ex = const_value(n.right)
                if not (isinstance(ex, int) and ex >= 0):
                    bad.append(n)
            elif isinstance(n, ast.Constant) and isinstance(n.value, float):
                bad.append(n)
    return bad


def rule_int(ctx, func, rule='C12.INT'):
    rets = [n for n in func.own_nodes() if isinstance(n, ast.Return) and n.value is not None]
    n_checked = 0
    for r in rets:
        exprs, _names = df.backward_slice(func, r.value)
        bad = float_constructs(exprs)
        n_checked += 1
        ctx.check(not bad, rule, ctx.key(func, r),
                  'return value computed with integer operations only',
                  'integer result routed through floating point: ' + ', '.join(norm(b) for b in bad),
                  witness=[f'{ctx.loc(func, b)} {norm(b)}' for b in bad], loc=ctx.loc(func, r))
    return n_checked


def run(ctx):
    merkle_bl = ctx.func('merkle', 'Merkle.branch_length')
    merkle_td = ctx.func('merkle', 'Merkle.tree_depth')
    n = rule_int(ctx, merkle_bl) + rule_int(ctx, merkle_td)
    ctx.floor('C12.INT', 2, n)

    # positive control: the rule must report the float route in the fixture
    from ..selfcheck import fixture_ctx
    fx = fixture_ctx('merkle_float.py')
    fxf = fx.repo.func('fixture', 'branch_length_float')
    got = rule_int(fx, fxf, 'C12.INT')
    if not any(o.verdict == 'violated' for o in fx.obligations):
        raise AnalysisError('positive control failed: C12.INT did not report the float fixture')
    ctx.note('positive control C12.INT: fixture merkle_float.py reported as expected')

    # ONEAPPEND / TSCINDEP / MARKER on branch_and_root
    bar = ctx.func('merkle', 'Merkle.branch_and_root')
    cfg = ctx.cfg(bar)
    loops = [s for s in bar.own_nodes() if isinstance(s, (ast.For, ast.While))
             and any(isinstance(c, ast.Call) and q.callee_name(ctx, bar, c) == 'branch.append'
                     for c in walk_own(s))]
    loops = [l for l in loops if not any(isinstance(a, (ast.For, ast.While)) and a is not l and
                                         any(x is l for x in ast.walk(a)) for a in loops)]
    if len(loops) != 1:
        raise AnalysisError('Merkle.branch_and_root: expected one level loop appending to branch')
    loop = loops[0]
    appends = [q.stmt(c) for c in q.calls_named(ctx, bar, 'branch.append')]
    ok, wit = pr.once_per_iteration(cfg, loop, [cfg.node(s) for s in appends])
    ctx.check(ok, 'C12.ONEAPPEND', ctx.key(bar, loop, 'branch.append'),
              'every level iteration appends exactly one branch element on every path',
              'a level iteration can append zero or several branch elements', wit, ctx.loc(bar, loop))
    shifts = [s for s in q.assigns(ctx, bar, 'index') if isinstance(s, ast.AugAssign) or
              (isinstance(s, ast.Assign))]
    shifts = [s for s in shifts if q.in_body(s, loop.body)]
    ok, wit = pr.once_per_iteration(cfg, loop, [cfg.node(s) for s in shifts])
    ctx.check(ok, 'C12.ONEAPPEND', ctx.key(bar, loop, 'index update'),
              'index is moved up exactly once per level', 'index is not moved up exactly once per level',
              wit, ctx.loc(bar, loop))
    reduces = [s for s in q.assigns(ctx, bar, 'hashes') if q.in_body(s, loop.body)]
    ok, wit = pr.once_per_iteration(cfg, loop, [cfg.node(s) for s in reduces])
    ctx.check(ok, 'C12.ONEAPPEND', ctx.key(bar, loop, 'level reduction'),
              'the level is reduced exactly once per iteration', 'the level is not reduced exactly once per iteration',
              wit, ctx.loc(bar, loop))

    # TSCINDEP: index / hashes updates neither control- nor data-dependent on tsc_format
    tainted = df.forward_taint(bar, {'tsc_format'})
    hm = [q.stmt(c) for c in q.calls_named(ctx, bar, 'hashes.append')]
    n_t = 0
    for s in shifts + reduces + hm:
        n_t += 1
        conds = pr.control_conditions(s, bar.node)
        ctl = [norm(t) for t, _b, _p in conds if df.names_loaded(t) & tainted]
        val = s.value if hasattr(s, 'value') else None
        dat = sorted(df.names_loaded(val) & tainted) if val is not None else []
        ctx.check(not ctl and not dat, 'C12.TSCINDEP', ctx.key(bar, s),
                  'update independent of tsc_format',
                  f'update depends on tsc_format (control: {ctl}, data: {dat})', loc=ctx.loc(bar, s))
    ctx.floor('C12.TSCINDEP', 3, n_t)

    # MARKER: a constant appended to the branch must be guarded by tsc_format
    n_m = 0
    for c in q.calls_named(ctx, bar, 'branch.append'):
        if c.args and isinstance(c.args[0], ast.Constant):
            n_m += 1
            s = q.stmt(c)
            conds = pr.control_conditions(s, bar.node)
            guarded = any(b and any(df.names_loaded(cj) & {'tsc_format'} and isinstance(cj, ast.Name)
                                    for cj in pr.conjuncts(t)) for t, b, _p in conds)
            ctx.check(guarded, 'C12.MARKER', ctx.key(bar, s),
                      'duplicate marker appended only when tsc_format holds',
                      'a constant marker can enter a classic (non-TSC) branch', loc=ctx.loc(bar, s))
    ctx.floor('C12.MARKER', 1, n_m)

    # ALIGN: MerkleCache writes self.level[...] only at positions `X >> self.depth_higher` with X from _leaf_start
    n_a = 0
    for name in ('MerkleCache._extend_to', 'MerkleCache.truncate'):
        f = ctx.func('merkle', name)
        d = df.defs(f)
        for s in f.own_nodes():
            if isinstance(s, ast.Assign) and isinstance(s.targets[0], ast.Subscript):
                t = s.targets[0]
                if ctx.res.canon(t.value, f) != 'self.level':
                    continue
                n_a += 1
                sl = t.slice
                okk = False
                why = 'slice lower bound is not `<aligned> >> self.depth_higher`'
                if isinstance(sl, ast.Slice) and sl.upper is None and isinstance(sl.lower, ast.BinOp) \
                        and isinstance(sl.lower.op, ast.RShift) \
                        and ctx.res.canon(sl.lower.right, f) == 'self.depth_higher' \
                        and isinstance(sl.lower.left, ast.Name):
                    v = sl.lower.left.id
                    # every definition of v that reaches here must be a _leaf_start(...) call; for the
                    # parameter-shadowing form in truncate the last definition before s counts
                    cands = [rhs for st, rhs in d.get(v, []) if st.lineno < s.lineno]
                    if cands:
                        rhs = cands[-1]
                        if isinstance(rhs, ast.Call) and q.callee_name(ctx, f, rhs) == 'self._leaf_start':
                            okk = True
                        else:
                            why = f'{v} is not the result of self._leaf_start(...) (got {norm(rhs)})'
                    else:
                        why = f'{v} is not aligned with self._leaf_start(...) before the write'
                ctx.check(okk, 'C12.ALIGN', ctx.key(f, s), 'level written at a segment-aligned position', why,
                          loc=ctx.loc(f, s))
    ctx.floor('C12.ALIGN', 2, n_a)
