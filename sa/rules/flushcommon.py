'''Shared pieces of the flush / commit-protocol rules (C01, C03, C04, C05, C14).'''
import ast

from ..model import AnalysisError, norm, walk_own
from ..effects import InlineGraph, key_provenance
from .. import q


def commit_points(ig):
    '''COMMIT(UTXO) effects whose batch also receives the UTXO state record (the commit point).'''
    state_puts = [e for e in ig.of('PUT', 'UTXO') if key_provenance(ig.ctx, e)[0] == 'STATE']
    batches = {id(e.batch) for e in state_puts}
    return [e for e in ig.of('COMMIT', 'UTXO') if id(e.batch) in batches], state_puts


def writers(ctx):
    '''Functions with a direct durable write in their own body: {func key: [effect text]}.'''
    from ..effects import Frame, Effect
    out = {}
    for f in ctx.repo.funcs.values():
        if f.is_async and False:
            continue
        ig = None
        # cheap pre-filter on text
        src = ''.join(norm(n.func) for n in f.own_nodes() if isinstance(n, ast.Call))
        if not any(k in src for k in ('put', 'delete', 'write_batch', 'write')):
            continue
        ig = InlineGraph(ctx, f, max_depth=0)
        effs = [e for e in ig.effects if e.frame is ig.root and e.kind in
                ('PUT', 'DELETE', 'DIRECT_PUT', 'DIRECT_DELETE', 'FILE_WRITE', 'BATCH_OPEN')]
        # writes through a `batch` / `batch_put` parameter are attributed to whoever binds the handle,
        # but the function is still a writer primitive
        prim = []
        for n in f.own_nodes():
            if isinstance(n, ast.Call):
                fn = n.func
                if isinstance(fn, ast.Attribute) and fn.attr in ('put', 'delete') and isinstance(fn.value, ast.Name) \
                        and fn.value.id in f.params:
                    prim.append(f'{norm(n)[:60]} (through parameter {fn.value.id})')
                elif isinstance(fn, ast.Name) and fn.id in f.params and fn.id in ('batch_put', 'batch_delete'):
                    prim.append(f'{norm(n)[:60]} (through parameter {fn.id})')
        if effs or prim:
            out[f.key] = [e.text() for e in effs] + prim
    return out


def reachable_only_through(ctx, target, entries, roots_ok=()):
    '''Backward search from `target` over call / thread / ref edges, stopping at `entries`.
    Returns a list of offending chains that reach a function without callers that is not an entry.'''
    bad = []
    seen = set()
    stack = [(target, [target.qual])]
    while stack:
        f, chain = stack.pop()
        if f.key in seen:
            continue
        seen.add(f.key)
        if f.key in entries:
            continue
        callers = ctx.cg.callers(f)
        if not callers:
            if f.key not in roots_ok:
                bad.append(list(reversed(chain)))
            continue
        for (caller, _callee, kind, node) in callers:
            stack.append((caller, chain + [f'{caller.qual} ({kind} at line {node.lineno})']))
    return bad
